"""C08 - JSON round trip reproduces the histogram exactly."""
from __future__ import annotations

import json
import math
import os
import random
import warnings
from pathlib import Path

import numpy as np

from .. import attach, core, gen, snapshot as snap
from ..monitors import jsonio

DECIDING_MONITORS = ["C08.roundtrip", "C08.version"]
PASSIVE_UNDER_TESTS = True
RULE = ("histograms of every class (Histogram1D, Histogram2D, HistogramND 3-4D, Polar / Radial / Azimuthal / Spherical / SphericalSurface / "
        "Cylindrical) x binning type (static, gapped static, numpy, fixed_width adaptive or not, exponential) x dtype int16..float64 x missed "
        "values (under/overflow/inner, ND missed, NaN markers) x custom errors (also errors2 almost equal to frequencies) x metadata "
        "(name, title, axis names, nested JSON values, unicode) x keep_missed, and collections, are serialised with to_json / save_json "
        "(+ load_json through a scratch file), parsed and compared attribute by attribute bit-exactly; the parsed object is serialised "
        "again and the documents compared; documents declaring physt_compatible around the running version (older, equal, pre/post/dev "
        "releases, newer patch / minor / major, components gaining a digit) must be accepted / refused; histogram subclasses defined by the user after earlier documents were read; non-trivial = histogram with non-zero "
        "missed values or custom errors or custom metadata and a non-default dtype / binning type; distinct by hash of the document Collections carry their own name / title and 0-3 members; right-closed fixed-width bins, selections that drop the last bin, and histograms whose tracking of missed values was switched off after values were missed are part of the mix.")
ASSUMPTIONS = ["float128 histograms are not serialised (to_json raises TypeError: refusal, not a violation)",
               "packaging.version is trusted for the ordering of version strings"]


def attach_monitors():
    jsonio.attach_json_monitors()


def make_any(rng: random.Random):
    """Returns (object, class tag, nontrivial flag)."""
    import physt
    from physt import binnings, special_histograms as sp
    from physt.histogram1d import Histogram1D
    from physt.histogram_collection import HistogramCollection

    kind = rng.choice(["1d_static", "1d_gapped", "1d_numpy", "1d_fixed", "1d_adaptive", "1d_exp", "2d", "nd", "2d_adaptive", "polar", "radial", "azimuthal",
                       "spherical", "spherical_surface", "cylindrical", "collection", "1d_near_one"])
    n = rng.randint(0, 40)
    flags = {"missed": False, "custom": False, "meta": False}
    if kind.startswith("1d") or kind == "collection":
        def one_1d(k, name=None):
            kw = {}
            if k == "1d_gapped":
                pairs = gen.gapped_pairs(rng, rng.randint(2, 6))
                bins = np.array(pairs)
                kw["weights"] = np.asarray([rng.randint(0, 16) / 4 for _ in range(n)], dtype=float)
            else:
                pairs = gen.pairs_from_edges(gen.edges(rng, rng.randint(1, 8)))
                bins = np.array([p[0] for p in pairs] + [pairs[-1][1]])
            data = np.asarray(gen.data_for_bins(rng, pairs, n), dtype=float)
            if k == "1d_static" or k == "1d_gapped":
                pass
            if k == "1d_numpy":
                bins = binnings.NumpyBinning(bins, includes_right_edge=rng.random() < 0.7)
            elif k == "1d_fixed":
                w = rng.choice([0.5, 1.0, 0.1, 2.5])
                bins = binnings.FixedWidthBinning(bin_width=w, bin_count=rng.randint(1, 8), min=rng.choice([0.0, -2.0, 10.0]), **({"includes_right_edge": True} if rng.random() < 0.3 else {}))
                pairs = np.asarray(bins.bins).tolist()
                data = np.asarray(gen.data_for_bins(rng, pairs, n), dtype=float)
            elif k == "1d_adaptive":
                d = np.asarray([rng.uniform(-5, 5) for _ in range(max(n, 1))])
                h = physt.h1(d, "fixed_width", bin_width=rng.choice([0.5, 1.0, 0.3]), adaptive=True, name=name)
                return h
            elif k == "1d_exp":
                bins = binnings.ExponentialBinning(log_min=rng.choice([-1.0, 0.0, 0.5]), log_width=rng.choice([0.25, 0.5]), bin_count=rng.randint(1, 6))
                if rng.random() < 0.3:
                    # the parameters as numpy hands them over (bin_count from an array's max(), a range taken from float32 data)
                    bins = binnings.ExponentialBinning(log_min=np.float32(rng.choice([-1.0, 0.0, 0.5])), log_width=np.float32(rng.choice([0.25, 0.5])), bin_count=np.int64(rng.randint(1, 6)))
                pairs = np.asarray(bins.bins).tolist()
                data = np.asarray(gen.data_for_bins(rng, pairs, n), dtype=float)
            if k == "1d_near_one":
                kw["weights"] = 1.0 + np.asarray([rng.choice([1e-7, -1e-7, 2e-7, 0.0]) for _ in range(n)])
            elif "weights" not in kw and rng.random() < 0.4:
                kw["weights"] = np.asarray([rng.randint(0, 16) / 4 for _ in range(n)], dtype=float)
            if "weights" not in kw and rng.random() < 0.6:
                kw["dtype"] = rng.choice(["int16", "int32", "int64", "float16", "float32", "float64"])
            elif "weights" in kw and rng.random() < 0.3 and k != "1d_near_one":
                kw["dtype"] = rng.choice(["float32", "float64"])
            if rng.random() < 0.2:
                kw["keep_missed"] = False
            h = physt.h1(data, bins, name=name or rng.choice([None, "nm", "jméno ✓"]), title=rng.choice([None, "a title"]),
                         axis_name=rng.choice([None, "x [cm]"]), **kw)
            return h

        if kind == "collection":
            e = gen.edges(rng, rng.randint(1, 6))
            pairs = gen.pairs_from_edges(e)
            hs = [physt.h1(np.asarray(gen.data_for_bins(rng, pairs, rng.randint(0, 20))), np.array(e), name=f"m{i}") for i in range(rng.randint(0, 3))]
            ckw = {}
            if rng.random() < 0.6:
                ckw["name"] = rng.choice(["runs", "série ✓"])
            if rng.random() < 0.4:
                ckw["title"] = "All runs"
            if not hs:
                # no member yet (the documented way to start one: binning=..., members created later)
                ckw["binning"] = physt.h1([e[0]], np.array(e)).binning
            flags["meta"] = flags["meta"] or bool(ckw)
            if rng.random() < 0.25:
                # adaptive bins: every member owns its copy of the binning and grows on its own - still one collection, still a document
                with warnings.catch_warnings():
                    warnings.simplefilter("ignore")
                    if rng.random() < 0.5:
                        col = HistogramCollection(binning=binnings.FixedWidthBinning(bin_width=rng.choice([1.0, 0.5]), adaptive=True), **{k_: v_ for k_, v_ in ckw.items() if k_ != "binning"})
                        for i_ in range(rng.randint(1, 3)):
                            col.create(f"m{i_}", np.asarray([rng.uniform(-3, 6) for _ in range(rng.randint(1, 5))]))
                    else:
                        col = physt.collection({f"m{i_}": np.asarray([rng.uniform(0, 4) for _ in range(rng.randint(1, 5))]) for i_ in range(rng.randint(2, 3))}, "fixed_width", bin_width=1.0, adaptive=True)
                        col.histograms[-1].fill(rng.choice([7.3, -5.2]))
                return col, kind, flags
            return HistogramCollection(*hs, **ckw), kind, flags
        h = one_1d(kind)
        if h.keep_missed and rng.random() < 0.3 and not h.is_adaptive() and np.dtype(h.dtype).kind == "f":
            h.inner_missed = rng.choice([1.0, 2.5])
            flags["missed"] = True
        if h.shape[0] >= 2 and rng.random() < 0.15 and all(np.array_equal(np.asarray(h.bins)[1:, 0], np.asarray(h.bins)[:-1, 1]) for _ in (0,)):
            # bins made by merging (their flags and edges are computed, not given)
            h = h.merge_bins(rng.choice([1, 2, 3]))
        if h.shape[0] >= 2 and not h.is_adaptive() and rng.random() < 0.1:
            # a selection that drops the last bin: its bins are right-open, whatever the class of binning they came from
            h = h[0 : h.shape[0] - 1]
        if h.keep_missed and not h.is_adaptive() and rng.random() < 0.2:
            # tracking of the missed values switched off later (by hand, or by adding a histogram that never tracked them): what had been
            # recorded until then is still reported, and is part of the document
            if rng.random() < 0.5:
                h.keep_missed = False
            else:
                with warnings.catch_warnings():
                    warnings.simplefilter("ignore")
                    other = h.copy()
                    other.keep_missed = False
                    h = h + other
            flags["missed"] = True
    elif kind in ("2d", "nd", "2d_adaptive"):
        d = 2 if kind.startswith("2d") else rng.choice([3, 4])
        if kind == "2d_adaptive":
            rows = np.array([[rng.uniform(-3, 3), rng.uniform(0, 5)] for _ in range(max(n, 1))])
            if rng.random() < 0.25:
                # still empty (no bins yet on any axis): a document as well
                dim_ = rng.choice([2, 3])
                h = physt.h(None, "fixed_width", bin_width=[0.5, 1.0, 2.0][:dim_], adaptive=True, dim=dim_)
            else:
                h = physt.h(rows, "fixed_width", bin_width=[0.5, 1.0], adaptive=True, axis_names=["u", "v"])
        else:
            axes = []
            specs = []
            for ax in range(d):
                pairs = gen.pairs_from_edges(gen.edges(rng, rng.randint(1, 4)))
                axes.append(pairs)
                e = np.array([p[0] for p in pairs] + [pairs[-1][1]])
                r = rng.random()
                specs.append(e if r < 0.5 else (binnings.NumpyBinning(e, includes_right_edge=rng.random() < 0.5) if r < 0.75 else binnings.StaticBinning(np.array(pairs), includes_right_edge=rng.random() < 0.5)))
            rows = np.array([gen.data_for_bins(rng, p, n) for p in axes], dtype=float).T.reshape(n, d)
            kw = {}
            if rng.random() < 0.5:
                kw["weights"] = np.asarray([rng.randint(0, 16) / 4 for _ in range(n)], dtype=float)
            elif rng.random() < 0.5:
                kw["dtype"] = rng.choice(["int32", "float32", "int16", "float64"])
            h = physt.h(rows, specs, axis_names=[f"ax{i}" for i in range(d)], name=rng.choice([None, "nd"]), **kw)
            if rng.random() < 0.12 and h.total > 0:
                # missed weight reading "unknown" (NaN) after array arithmetic under free arithmetics
                from physt.config import config as _cfg

                with _cfg.enable_free_arithmetics():
                    h = h * np.full(h.shape, 2)
                flags["missed"] = True
    else:
        pts = np.array([[rng.uniform(-3, 3) for _ in range(3)] for _ in range(max(n, 3))])
        with warnings.catch_warnings():
            warnings.simplefilter("ignore")
            if kind == "polar":
                h = sp.polar(pts[:, 0], pts[:, 1], radial_bins=rng.choice([3, 5]), phi_bins=rng.choice([4, 8]))
            elif kind == "radial":
                h = sp.radial(pts[:, 0], pts[:, 1], bins=rng.choice([3, 6]))
            elif kind == "azimuthal":
                h = sp.azimuthal(pts[:, 0], pts[:, 1], bins=rng.choice([4, 8]))
            elif kind == "spherical":
                h = sp.spherical(pts, radial_bins=3, theta_bins=4, phi_bins=4)
            elif kind == "spherical_surface":
                h = sp.spherical_surface(pts, theta_bins=4, phi_bins=6, radius=rng.choice([None, 2.0]))
            else:
                h = sp.cylindrical(pts, rho_bins=3, phi_bins=4, z_bins=2)
    # custom errors / metadata / missed through the public surface
    if rng.random() < 0.3 and h.total > 0:
        e2 = np.asarray(h.errors2) * 2 + (1 if np.dtype(h.dtype).kind in "iu" else 0.25)
        h.errors2 = e2.astype(h.dtype)
        flags["custom"] = True
    if rng.random() < 0.4:
        h.meta_data["custom"] = rng.choice([{"a": [1, 2.5, None], "b": {"c": "é"}}, "plain", 17, [1, [2, 3]], True])
        flags["meta"] = True
    if rng.random() < 0.2:
        h.title = "Δx title"
        flags["meta"] = True
    if rng.random() < 0.12:
        # custom entries whose names are also names of constructor arguments: entries, not arguments
        for key_ in rng.sample(["dtype", "missed", "keep_missed", "stats", "dimension", "underflow", "overflow", "inner_missed", "axis_name", "binning", "errors2"], rng.randint(1, 3)):
            h.meta_data[key_] = rng.choice(["float32", 3, False, [1, 2], "p_T [GeV]", {"k": 1.5}])
        flags["meta"] = True
    try:
        m = float(h.missed) if not hasattr(h, "underflow") else float(h.underflow if h.underflow == h.underflow else 0) + float(h.overflow if h.overflow == h.overflow else 0)
        flags["missed"] = flags["missed"] or m > 0 or (hasattr(h, "underflow") and h.underflow != h.underflow)
    except Exception:
        pass
    return h, kind, flags


def one_case(ctx, index, rng: random.Random):
    import physt.io

    rec = ctx.rec
    try:
        with warnings.catch_warnings():
            warnings.simplefilter("ignore")
            obj, kind, flags = make_any(rng)
    except Exception as e:
        rec.monitor_error("C08.make", e)
        return
    if not hasattr(obj, "histograms") and rng.random() < 0.08:
        # a histogram class of the user's own, defined now (i.e. after earlier documents were read in this process)
        try:
            with attach.quiet():
                sub = type(f"User{type(obj).__name__}P{os.getpid()}I{index}", (type(obj),), {"__module__": __name__})
                obj = sub.from_dict(obj.to_dict())
            kind = kind + "/user_subclass"
        except Exception as e:
            rec.monitor_error("C08.make_subclass", e)
            return
    how = rng.choice(["to_json", "save_json", "file", "indent"])
    try:
        if how == "to_json":
            text = obj.to_json()
        elif how == "save_json":
            text = physt.io.save_json(obj)
        elif how == "indent":
            text = obj.to_json(indent=2)
        else:
            d = core.ROOT / ".work" / "json_scratch"
            d.mkdir(parents=True, exist_ok=True)
            path = d / f"{os.getpid()}_{index}.json"
            text = obj.to_json(str(path)) if rng.random() < 0.5 else physt.io.save_json(obj, path)
            try:
                loaded = physt.io.load_json(path)
                with attach.quiet():
                    rec.mon("C08.roundtrip")
                    if hasattr(obj, "histograms"):
                        for x, y in zip(obj.histograms, loaded.histograms):
                            jsonio.compare_histograms(rec, x, y, op="load_json", detail={"kind": kind})
                    else:
                        jsonio.compare_histograms(rec, obj, loaded, op="load_json", detail={"kind": kind})
                    if path.read_text(encoding="utf-8") != text:
                        rec.fail(monitor="C08.roundtrip", op="save_json(path)", symptom="file content differs from the returned text", diff=["document"], detail={"kind": kind})
            finally:
                try:
                    path.unlink()
                except OSError:
                    pass
    except Exception as e:
        rec.mon("C08.roundtrip")
        rec.fail(monitor="C08.roundtrip", op=how, symptom=f"serialisation raised {type(e).__name__}", diff=["raised"], detail={"kind": kind, "error": str(e)[:200]})
        return
    with attach.quiet():
        jsonio.check_roundtrip(rec, obj, text, op=how, detail={"kind": kind})
    non_default = not hasattr(obj, "dtype") or str(obj.dtype) != "int64" or kind not in ("1d_static",)
    rec.case(text, (flags["missed"] or flags["custom"] or flags["meta"]) and non_default, cls=kind,
             sample={"kind": kind, "how": how, "document_head": text[:400]})


def version_case(ctx, index, rng: random.Random):
    import physt
    import physt.io
    from packaging.version import Version

    rec = ctx.rec
    rec.mon("C08.version")
    cur = Version(physt.__version__)
    major, minor, micro = (list(cur.release) + [0, 0, 0])[:3]
    cands = [f"{major}.{minor}.{micro}", f"{major}.{minor}.{micro + 1}", f"{major}.{minor + 1}.0", f"{major + 1}.0.0", f"{major}.{minor}.{micro + 10}",
             f"{major}.{minor + 2}", f"{major}.{minor * 10 + 1}.0", f"{major}.{minor}.{micro}.post1", f"{major}.{minor}.{micro}rc1", f"{major}.{minor}.{micro}.dev3",
             f"{major}.{minor}.{max(micro - 1, 0)}", f"{major}.{max(minor - 1, 0)}.99", "0.3.20", "0.4.5", f"{major}.{minor + 1}.0rc1", f"{major}.{minor + 1}.0.dev1",
             f"{major}.{minor}.{micro + 1}a1", f"{major + 10}.0", f"{major}.100", f"{major}.{minor}", f"{major}.{minor}.{micro}.0"]
    v = rng.choice(cands)
    must_refuse = Version(v) > cur
    import physt as _p

    if rng.random() < 0.3:
        from physt.histogram_collection import HistogramCollection

        obj = HistogramCollection(_p.h1([1.0, 2.0], np.array([0.0, 1.5, 3.0]), name="a"))
    else:
        obj = _p.h1([1.0, 2.0, 2.5], np.array([0.0, 1.5, 3.0])) if rng.random() < 0.5 else _p.h(np.array([[0.5, 0.5], [1.5, 2.5]]), [np.array([0.0, 1.0, 2.0]), np.array([0.0, 3.0])])
    doc = json.loads(obj.to_json())
    doc["physt_compatible"] = v
    text = json.dumps(doc)
    via_file = rng.random() < 0.3
    raised = None
    try:
        if via_file:
            d = core.ROOT / ".work" / "json_scratch"
            d.mkdir(parents=True, exist_ok=True)
            path = d / f"v_{os.getpid()}_{index}.json"
            path.write_text(text, encoding="utf-8")
            try:
                physt.io.load_json(path)
            finally:
                path.unlink()
        else:
            physt.io.parse_json(text)
    except Exception as e:
        raised = e
    if must_refuse and raised is None:
        rec.fail(monitor="C08.version", op="parse_json", symptom="document requiring a newer physt version was accepted", diff=["not_refused"], detail={"required": v, "running": str(cur)})
    if not must_refuse and raised is not None:
        rec.fail(monitor="C08.version", op="parse_json", symptom=f"document requiring an older / equal version was refused: {type(raised).__name__}", diff=["raised"],
                 detail={"required": v, "running": str(cur), "error": str(raised)[:160]})
    rec.case(["version", v, type(obj).__name__, via_file], True, cls=f"version/{'newer' if must_refuse else 'ok'}")


def run(ctx):
    attach_monitors()
    ctx.run_cases(ctx.scale(500, 4000), one_case, salt="roundtrip")
    ctx.run_cases(ctx.scale(120, 600), version_case, salt="version")
