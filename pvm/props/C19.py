"""C19 - the free-arithmetics switch is scoped, restored and isolated per context (schedule stress)."""
from __future__ import annotations

import asyncio
import os
import random
import subprocess
import sys
import threading
import time
import warnings

import numpy as np

from .. import core

DECIDING_MONITORS = ["C19.probe", "C19.env"]
PASSIVE_UNDER_TESTS = False
TIER_OVERRIDES = {"quick": {"floor": 100}, "thorough": {"floor": 2000}}
RULE = ("8-32 threads and 8-64 asyncio tasks (with sub-tasks created inside enabled blocks) each run a random program of nested "
        "enable_free_arithmetics(True/False) blocks, direct setter writes and exceptions raised at every depth; after every step a probe "
        "compares config.free_arithmetics and the acceptance / refusal of h + array, h * array, h * -c, h / -c, h /= -c, h -= array, "
        "frequencies = negative and the addition of an operand holding negative contents (same bins and re-binned adaptive addition, +, reflected + and +=) with the context's own shadow stack (new thread: environment default, new task: creator's current value); "
        "sys.setswitchinterval(1e-6) and a sys.monitoring LINE callback on config.py and on the guarded operators sleep(0) so that threads "
        "are pre-empted between set and reset and between reading the switch and acting on it; tasks yield only at their own awaits; "
        "the decorator form (one decorated function shared by all threads, re-entered recursively and concurrently); environment default checked in child processes (PHYST_FREE_ARITHMETICS unset / 0 / 1 / other) from the importing context, a new thread, a fresh Context and a pool worker; a case = one program step with its probe; "
        "non-trivial = probe evaluated while another live context expected the opposite value (conflicting overlap); "
        "distinct by (context id, step number, nesting path)")
ASSUMPTIONS = ["cooperative code (asyncio) is only interleaved at its own await points",
               "fewer conflicting overlaps than the tier's floor makes the run inconclusive, never 'held'"]


class Marker(Exception):
    pass


class Shared:
    def __init__(self):
        self.lock = threading.Lock()
        self.rec_lock = threading.Lock()  # the recorder is shared by all threads: every update under this lock
        self.expected = {}  # context id -> currently expected value
        self.last_ctx = None
        self.switches = 0
        self.overlaps = 0
        self.probes = 0
        self.yields = 0
        self.events = 0

    def set_expected(self, cid, value):
        with self.lock:
            self.expected[cid] = value
            self.events += 1
            if self.last_ctx is not None and self.last_ctx != cid:
                self.switches += 1
            self.last_ctx = cid

    def drop(self, cid):
        with self.lock:
            self.expected.pop(cid, None)

    def conflicting(self, cid, value) -> bool:
        with self.lock:
            return any(v != value for k, v in self.expected.items() if k != cid)


def make_hist():
    import physt

    return physt.h1([0.5, 1.5, 1.5, 2.5], np.array([0.0, 1.0, 2.0, 3.0]))


_NEGATIVE = []


def negative_operand():
    """A histogram with negative contents, made once (in the main context, before any thread starts) while the switch is on;
    afterwards it is only read: adding it must be refused wherever the switch is off."""
    if not _NEGATIVE:
        import physt
        from physt.config import config

        b = physt.h1([7, 8, 8], "fixed_width", bin_width=1, adaptive=True)
        with config.enable_free_arithmetics():
            _NEGATIVE.append(b * (-3))
    return _NEGATIVE[0]


def probe(rec: core.Recorder, shared: Shared, cid, expected: bool, rng: random.Random, path: str, step: int):
    """Compare the library's view of the switch with the context's own shadow value."""
    from physt.config import config

    kind = rng.choice(["read", "read", "add_array", "mul_array", "mul_neg", "div_neg", "idiv_neg", "set_negative", "isub_array", "read", "add_negative", "add_negative_rebinned", "scale_negative_operand", "negative_missed", "radd_zero_array", "sub_more_missed"])
    with shared.rec_lock:
        rec.mon("C19.probe")
    conflict = shared.conflicting(cid, expected)
    with shared.lock:
        shared.probes += 1
        shared.overlaps += int(conflict)
    observed = None
    try:
        with warnings.catch_warnings():
            warnings.simplefilter("ignore")
            if kind == "read":
                observed = bool(config.free_arithmetics)
            else:
                h = make_hist()
                try:
                    if kind == "add_array":
                        h + np.ones(3)
                    elif kind == "mul_array":
                        h * np.full(3, 2.0)
                    elif kind == "mul_neg":
                        h * -1
                    elif kind == "div_neg":
                        h / -2
                    elif kind == "idiv_neg":
                        h /= -1.0
                    elif kind in ("add_negative", "add_negative_rebinned"):
                        import physt

                        neg = negative_operand()
                        other = (physt.h1([7, 8, 8], "fixed_width", bin_width=1, adaptive=True) if kind == "add_negative"
                                 else physt.h1([1, 2, 3, 4], "fixed_width", bin_width=1, adaptive=True))  # other bins: merged on the common grid
                        how = rng.randrange(3)
                        if how == 0:
                            other + neg
                        elif how == 1:
                            neg + other
                        else:
                            other += neg
                    elif kind == "sub_more_missed":
                        # every bin of the minuend holds enough, its under / overflow does not: the difference has negative (missed) contents
                        import physt

                        b_ = physt.h1([0.5, -1.0, 7.0, 8.0], np.array([0.0, 1.0, 2.0, 3.0]))
                        if rng.random() < 0.5:
                            h - b_
                        else:
                            h -= b_
                    elif kind == "radd_zero_array":
                        # an array on the left of + is an array-like operand too, whatever its values (zeros look like sum()'s start value)
                        rng.choice([np.zeros(1), np.array([0]), np.array(0), np.zeros(3)]) + h
                    elif kind == "negative_missed":
                        # weight recorded outside the bins is content too: a negative one is handed over (not produced by an operator)
                        from physt.histogram1d import Histogram1D
                        from physt.histogram_nd import Histogram2D

                        how = rng.randrange(5)
                        ed_ = np.array([0.0, 1.0, 2.0, 3.0])
                        if how == 0:
                            h.overflow = -4
                        elif how == 1:
                            h.underflow = -0.5
                        elif how == 2:
                            Histogram1D(ed_, np.array([1, 2, 3]), overflow=-1)
                        elif how == 3:
                            Histogram2D([ed_, np.array([0.0, 1.0])], np.array([[1], [2], [3]]), missed=-3)
                        else:
                            Histogram1D.from_dict({**h.to_dict(), "missed": [0, -2, 0]})
                    elif kind == "scale_negative_operand":
                        # a positive factor on contents that are negative already: the result holds negative contents all the same, so it
                        # exists only where free arithmetics is enabled (refused before anything is touched otherwise)
                        neg = negative_operand()
                        how = rng.randrange(4)
                        if how == 0:
                            neg / 2
                        elif how == 1:
                            neg * 2
                        elif how == 2:
                            c_ = neg.copy()
                            c_ /= 2.0
                        else:
                            3 * neg
                    elif kind == "isub_array":
                        h -= np.ones(3) * 5
                    else:
                        # (a bin whose content is unknown - NaN - beside the negative one changes nothing about the negative one)
                        h.frequencies = np.array([-1, 0, 2]) if rng.random() < 0.5 else np.array([rng.choice([-1.0, -0.5]), float("nan"), 2.0])
                    observed = True
                except (TypeError, ValueError):
                    observed = False
    except Exception as e:  # pragma: no cover
        with shared.rec_lock:
            rec.monitor_error("C19.probe", e)
        return
    with shared.rec_lock:
        rec.case([cid, step, path, kind], conflict, cls=f"probe/{kind}", sample={"context": cid, "path": path, "probe": kind, "expected": expected, "observed": observed, "conflict": conflict})
        if observed != expected:
            rec.fail(monitor="C19.probe", op=kind, symptom=("free arithmetics observed ENABLED in a context that disabled it / never enabled it" if observed
                                                            else "free arithmetics observed DISABLED inside a context that enabled it"),
                     diff=["free_arithmetics"], detail={"context": cid, "nesting": path, "step": step, "expected": expected, "observed": observed, "conflicting_overlap": conflict})


_DECORATED = {}
_DECORATED_LOCK = threading.Lock()


def decorated(v: bool):
    """One function per value, decorated once with enable_free_arithmetics(v) and shared by every thread / task."""
    with _DECORATED_LOCK:
        if v not in _DECORATED:
            from physt.config import config

            @config.enable_free_arithmetics(v)
            def call(fn):
                return fn()

            _DECORATED[v] = call
        return _DECORATED[v]


# ---------------------------------------------------------------------------------------------
# thread programs


def thread_program(rec, shared, cid, seed, steps, default):
    from physt.config import config

    rng = random.Random(seed)
    stack = [default]
    shared.set_expected(cid, default)
    counter = [0]

    def block(depth, path):
        n = rng.randint(1, 4)
        for _ in range(n):
            if counter[0] >= steps:
                return
            counter[0] += 1
            r = rng.random()
            if r < 0.45 and depth < 4:
                v = rng.random() < 0.5
                boom = rng.random() < 0.25
                try:
                    with config.enable_free_arithmetics(v):
                        stack.append(v)
                        shared.set_expected(cid, v)
                        probe(rec, shared, cid, stack[-1], rng, path + f">{int(v)}", counter[0])
                        block(depth + 1, path + f">{int(v)}")
                        probe(rec, shared, cid, stack[-1], rng, path + f">{int(v)}", counter[0])
                        if boom:
                            raise Marker()
                except Marker:
                    pass
                finally:
                    stack.pop()
                    shared.set_expected(cid, stack[-1])
                probe(rec, shared, cid, stack[-1], rng, path, counter[0])
            elif r < 0.6:
                v = rng.random() < 0.5
                config.free_arithmetics = v
                stack[-1] = v
                shared.set_expected(cid, v)
                probe(rec, shared, cid, v, rng, path + "=", counter[0])
            elif r < 0.75 and depth < 4:
                # the decorator form: one decorated function shared by all threads, re-entered recursively and concurrently
                v = rng.random() < 0.5
                boom = rng.random() < 0.25
                entered = [False]

                def inner():
                    entered[0] = True
                    stack.append(v)
                    shared.set_expected(cid, v)
                    probe(rec, shared, cid, stack[-1], rng, path + f">@{int(v)}", counter[0])
                    block(depth + 1, path + f">@{int(v)}")
                    probe(rec, shared, cid, stack[-1], rng, path + f">@{int(v)}", counter[0])
                    if boom:
                        raise Marker()

                try:
                    decorated(v)(inner)
                except Marker:
                    pass
                except Exception as e:
                    with shared.rec_lock:
                        rec.fail(monitor="C19.probe", op="decorated call", symptom=f"a call of a function decorated with enable_free_arithmetics raised {type(e).__name__}",
                                 diff=["raised"], detail={"context": cid, "nesting": path, "error": str(e)[:160]})
                finally:
                    if entered[0]:
                        stack.pop()
                        shared.set_expected(cid, stack[-1])
                probe(rec, shared, cid, stack[-1], rng, path, counter[0])
            else:
                probe(rec, shared, cid, stack[-1], rng, path, counter[0])
            if rng.random() < 0.3:
                time.sleep(0)

    try:
        while counter[0] < steps:
            block(0, "")
    except Exception as e:
        rec.monitor_error("C19.thread_program", e)
    finally:
        shared.drop(cid)


# ---------------------------------------------------------------------------------------------
# asyncio programs


async def task_program(rec, shared, cid, seed, steps, inherited, allow_children=True):
    from physt.config import config

    rng = random.Random(seed)
    stack = [inherited]
    shared.set_expected(cid, inherited)
    counter = [0]
    children = []

    async def block(depth, path):
        n = rng.randint(1, 4)
        for _ in range(n):
            if counter[0] >= steps:
                return
            counter[0] += 1
            r = rng.random()
            if r < 0.45 and depth < 4:
                v = rng.random() < 0.5
                boom = rng.random() < 0.25
                try:
                    with config.enable_free_arithmetics(v):
                        stack.append(v)
                        shared.set_expected(cid, v)
                        await asyncio.sleep(0)
                        probe(rec, shared, cid, stack[-1], rng, path + f">{int(v)}", counter[0])
                        if allow_children and rng.random() < 0.15 and len(children) < 3:
                            # a sub-task created here starts from the creator's current value
                            children.append(asyncio.create_task(task_program(rec, shared, f"{cid}.c{len(children)}", rng.randrange(10**9), max(4, steps // 4), stack[-1], False)))
                        await block(depth + 1, path + f">{int(v)}")
                        await asyncio.sleep(0)
                        probe(rec, shared, cid, stack[-1], rng, path + f">{int(v)}", counter[0])
                        if boom:
                            raise Marker()
                except Marker:
                    pass
                finally:
                    stack.pop()
                    shared.set_expected(cid, stack[-1])
                probe(rec, shared, cid, stack[-1], rng, path, counter[0])
            elif r < 0.6:
                v = rng.random() < 0.5
                config.free_arithmetics = v
                stack[-1] = v
                shared.set_expected(cid, v)
                probe(rec, shared, cid, v, rng, path + "=", counter[0])
            elif r < 0.7:
                v = rng.random() < 0.5

                def inner():
                    stack.append(v)
                    shared.set_expected(cid, v)
                    try:
                        probe(rec, shared, cid, v, rng, path + f">@{int(v)}", counter[0])
                        if rng.random() < 0.3:
                            decorated(not v)(lambda: (shared.set_expected(cid, not v), probe(rec, shared, cid, not v, rng, path + f">@{int(v)}>@{int(not v)}", counter[0]), shared.set_expected(cid, v)))
                            probe(rec, shared, cid, v, rng, path + f">@{int(v)}", counter[0])
                    finally:
                        stack.pop()
                        shared.set_expected(cid, stack[-1])

                try:
                    decorated(v)(inner)
                except Exception as e:
                    rec.fail(monitor="C19.probe", op="decorated call", symptom=f"a call of a function decorated with enable_free_arithmetics raised {type(e).__name__}",
                             diff=["raised"], detail={"context": cid, "nesting": path, "error": str(e)[:160]})
                probe(rec, shared, cid, stack[-1], rng, path, counter[0])
            else:
                probe(rec, shared, cid, stack[-1], rng, path, counter[0])
            await asyncio.sleep(0)

    try:
        while counter[0] < steps:
            await block(0, "")
        for c in children:
            await c
        probe(rec, shared, cid, stack[-1], rng, "end", counter[0])
    except Exception as e:
        rec.monitor_error("C19.task_program", e)
    finally:
        shared.drop(cid)


async def async_main(rec, shared, seed, ntasks, steps, default):
    from physt.config import config

    rng = random.Random(seed)
    base = default
    shared.set_expected("amain", base)
    tasks = []
    for i in range(ntasks):
        if rng.random() < 0.3:
            base = rng.random() < 0.5
            config.free_arithmetics = base  # tasks created from now on inherit this value
            shared.set_expected("amain", base)
        tasks.append(asyncio.create_task(task_program(rec, shared, f"t{i}", rng.randrange(10**9), steps, base)))
        if rng.random() < 0.5:
            await asyncio.sleep(0)
    await asyncio.gather(*tasks)
    probe(rec, shared, "amain", base, rng, "main-end", 0)
    shared.drop("amain")


# ---------------------------------------------------------------------------------------------
# yield injection


def install_yield_injection(shared: Shared, rng_seed: int):
    """sys.monitoring LINE events on config.py and the guarded operators: sleep(0) so that the OS scheduler
    may pre-empt the thread between ContextVar.set and reset, and between reading the switch and acting on it."""
    mon = getattr(sys, "monitoring", None)
    if mon is None:
        return None
    import physt.config as pc
    from physt.histogram_base import HistogramBase

    tool = mon.PROFILER_ID
    try:
        mon.use_tool_id(tool, "pvm-c19")
    except ValueError:
        return None
    rng = random.Random(rng_seed)
    codes = []
    for obj in vars(pc._Config).values():
        f = getattr(obj, "__wrapped__", None) or getattr(obj, "fget", None) or obj
        code = getattr(f, "__code__", None)
        if code is not None:
            codes.append(code)
        for attr in ("fset",):
            g = getattr(obj, attr, None)
            if g is not None and getattr(g, "__code__", None) is not None:
                codes.append(g.__code__)
    for name in ("__iadd__", "__isub__", "__imul__", "__itruediv__"):
        f = HistogramBase.__dict__.get(name)
        f = getattr(f, "__pvm_wrapped__", f)
        if f is not None and getattr(f, "__code__", None) is not None:
            codes.append(f.__code__)
    fs = HistogramBase.__dict__.get("frequencies")
    if isinstance(fs, property) and fs.fset is not None:
        codes.append(fs.fset.__code__)

    def on_line(code, line):
        if rng.random() < 0.5:
            shared.yields += 1
            time.sleep(0)

    mon.register_callback(tool, mon.events.LINE, on_line)
    for c in codes:
        try:
            mon.set_local_events(tool, c, mon.events.LINE)
        except Exception:
            pass
    return tool


def remove_yield_injection(tool):
    mon = getattr(sys, "monitoring", None)
    if mon is None or tool is None:
        return
    try:
        mon.register_callback(tool, mon.events.LINE, None)
        mon.free_tool_id(tool)
    except Exception:
        pass


# ---------------------------------------------------------------------------------------------


def env_checks(ctx):
    """Environment default in fresh child processes."""
    rec = ctx.rec
    code = ("import warnings; warnings.simplefilter('ignore'); import threading, contextvars, concurrent.futures\n"
            "import numpy as np, physt; from physt.config import config\n"
            "def look():\n"
            "    h = physt.h1([0.5, 1.5], np.array([0.0, 1.0, 2.0])); ok = True\n"
            "    try:\n        h + np.ones(2)\n    except TypeError:\n        ok = False\n"
            "    return [int(bool(config.free_arithmetics)), int(ok)]\n"
            "out = look()\n"
            "box = []\n"
            "t = threading.Thread(target=lambda: box.extend(look())); t.start(); t.join(); out += box\n"
            "out += contextvars.Context().run(look)\n"
            "with concurrent.futures.ThreadPoolExecutor(1) as ex:\n    out += ex.submit(look).result()\n"
            "with config.enable_free_arithmetics(False):\n    pass\n"
            "out += look()\n"
            "print(*out)")
    for setting, want in ((None, False), ("0", False), ("1", True), ("true", False), ("", False)):
        rec.mon("C19.env")
        env = dict(os.environ)
        env.pop("PHYST_FREE_ARITHMETICS", None)
        if setting is not None:
            env["PHYST_FREE_ARITHMETICS"] = setting
        try:
            p = subprocess.run([sys.executable, "-c", code], env=env, capture_output=True, text=True, timeout=120)
            out = p.stdout.strip().split()
            got = tuple(x == "1" for x in out[-10:]) if len(out) >= 10 else None
        except Exception as e:
            rec.monitor_error("C19.env", e)
            continue
        rec.case(["env", setting], True, cls="env")
        # importing context, new thread, fresh Context, pool worker, importing context after a block: all see the environment default
        if got is None or got != (want,) * 10:
            rec.fail(monitor="C19.env", op=f"PHYST_FREE_ARITHMETICS={setting!r}", symptom="environment default of the switch is wrong", diff=["free_arithmetics"],
                     detail={"setting": setting, "expected": want, "observed": got, "stderr": p.stderr[-300:]})


def run(ctx):
    import physt  # noqa: F401
    from physt.config import config

    rec = ctx.rec
    shared = Shared()
    default = bool(config.free_arithmetics)
    negative_operand()
    old_interval = sys.getswitchinterval()
    sys.setswitchinterval(1e-6)
    tool = install_yield_injection(shared, ctx.seed * 1000 + ctx.shard)
    rounds = 2 if ctx.quick else 6
    try:
        for rnd in range(rounds):
            rng = core.case_rng(ctx.seed, ctx.shard, rnd, "threads")
            nthreads = rng.choice([8, 12, 16] if ctx.quick else [8, 16, 24, 32])
            steps = 60 if ctx.quick else 120
            threads = [threading.Thread(target=thread_program, args=(rec, shared, f"r{rnd}-th{i}", rng.randrange(10**9), steps, default), daemon=True) for i in range(nthreads)]
            for t in threads:
                t.start()
            for t in threads:
                t.join(timeout=300)
            # asyncio tasks (in a fresh thread, so that the setter writes of the main coroutine stay in that thread's context)
            ntasks = rng.choice([8, 16, 32] if ctx.quick else [16, 32, 64])

            def runner(seed=rng.randrange(10**9)):
                try:
                    asyncio.run(async_main(rec, shared, seed, ntasks, 40 if ctx.quick else 80, default))
                except Exception as e:
                    rec.monitor_error("C19.asyncio", e)

            at = threading.Thread(target=runner, daemon=True)
            at.start()
            at.join(timeout=600)
            # threads and tasks side by side
            mixed = [threading.Thread(target=thread_program, args=(rec, shared, f"r{rnd}-mx{i}", rng.randrange(10**9), steps // 2, default), daemon=True) for i in range(6)]
            at2 = threading.Thread(target=runner, daemon=True)
            for t in mixed + [at2]:
                t.start()
            for t in mixed + [at2]:
                t.join(timeout=600)
        # the main context must still see the default
        rec.mon("C19.probe")
        if bool(config.free_arithmetics) != default:
            rec.fail(monitor="C19.probe", op="main", symptom="a value set in another thread / task leaked into the main context", diff=["free_arithmetics"], detail={})
    finally:
        remove_yield_injection(tool)
        sys.setswitchinterval(old_interval)
    if ctx.shard == 0:
        env_checks(ctx)
    else:
        rec.mon("C19.env")
    rec.notes["schedule"] = {"probes": shared.probes, "context_switches_between_config_operations": shared.switches, "conflicting_overlaps": shared.overlaps,
                             "injected_yields": shared.yields, "config_events": shared.events}
    floor = 1000 if ctx.quick else 20000
    per_shard = floor / max(1, ctx.nshards)
    if shared.overlaps < per_shard:
        rec.inconclusive.append(f"only {shared.overlaps} conflicting overlaps in shard {ctx.shard} (floor {per_shard:.0f})")
