"""C12 - derived histograms are independent of their sources (world monitor over random histories)."""
from __future__ import annotations

import random

import numpy as np

from .. import attach, core, snapshot as snap
from ..world import World, attach_world
from ..worldload import History

DECIDING_MONITORS = ["C12.world.independence", "C12.copy.equal"]
PASSIVE_UNDER_TESTS = True
RULE = ("random histories over a population of <= 8 histograms (1D static/gapped/adaptive, 2D static/adaptive, 3D): constructions, "
        "derivations (copy, +, -, *, /, normalize, merge_bins, projection, select / indexing, T, partial_normalize, accumulate, JSON "
        "round trip), mutations (fill with adaptive growth, fill_n, in-place arithmetic, set_dtype, in-place normalize / merge, direct "
        "metadata edits); around every public call all live objects are snapshotted and every object other than the mutation target must "
        "be bit-identical afterwards; non-trivial = history with >= 1 derivation and >= 1 later mutation that changed the bins of the "
        "mutated object (adaptive growth / merge); distinct by hash of the operation log")
ASSUMPTIONS = [
    "identity selections returning self, collection members sharing one binning and construction from a user-supplied binning object share state by design and are not generated",
    "snapshots read public attributes only",
]

WEIGHTS = {"create": 1.0, "derive": 4.0, "mutate": 5.0, "fault": 0.6}


def copy_checks(ctx, rng, world):
    """copy() == original incl. class, dtype, metadata, statistics; copy(include_frequencies=False) empty and usable."""
    rec = ctx.rec
    h = History(ctx, rng, world, profile="C12")
    o = h.create()
    if o is None:
        return
    rec.mon("C12.copy.equal")
    with attach.quiet():
        s0 = snap.snapshot(o)
    c = o.copy()
    with attach.quiet():
        s1 = snap.snapshot(c)
    d = snap.diff(s0, s1)
    if d:
        rec.fail(monitor="C12.copy.equal", op="copy", symptom="copy() differs from the original", diff=sorted(d), detail={"log": h.log})
    try:
        e = o.copy(include_frequencies=False)
        with attach.quiet():
            s2 = snap.snapshot(e)
        if float(np.abs(snap.arr_values(s2["frequencies"]).astype(float)).sum()) != 0 or float(np.abs(snap.arr_values(s2["errors2"]).astype(float)).sum()) != 0 or s2["bins"] != s0["bins"]:
            rec.fail(monitor="C12.copy.equal", op="copy(include_frequencies=False)", symptom="empty copy is not empty over the same bins", diff=["frequencies", "bins"], detail={"log": h.log})
        v = h.values_for(e, 3)
        if e.ndim == 1:
            ix = e.fill(float(v[0, 0]), 3)
            inside = ix is not None and 0 <= ix < e.shape[0]
        else:
            ix = e.fill(v[0], 3)
            inside = ix is not None
        with attach.quiet():
            tf, te = float(np.asarray(e.frequencies, dtype=float).sum()), float(np.asarray(e.errors2, dtype=float).sum())
            if inside and not o.is_adaptive() and (tf != 3.0 or te != 9.0):
                rec.fail(monitor="C12.copy.equal", op="copy(include_frequencies=False)", symptom="the emptied copy does not count a filled value like a new histogram (contents 3, errors2 9 expected)",
                         diff=["frequencies", "errors2"], detail={"total": tf, "errors2_total": te, "log": h.log})
        e.fill_n(v[:, 0] if e.ndim == 1 else v)
        e += e.copy()
        if not o.is_adaptive():
            e += o
    except Exception as ex:
        rec.fail(monitor="C12.copy.equal", op="copy(include_frequencies=False)", symptom=f"empty copy is not usable: {type(ex).__name__}", diff=["raised"],
                 detail={"error": str(ex)[:200], "log": h.log})


def collection_copy_check(ctx, rng):
    """HistogramCollection.copy(): members of the copy and of the original are independent of each other."""
    import physt
    from physt.histogram_collection import HistogramCollection
    from .. import gen

    rec = ctx.rec
    rec.mon("C12.copy.equal")
    e = gen.edges(rng, rng.randint(1, 6))
    pairs = gen.pairs_from_edges(e)
    hs = [physt.h1(np.asarray(gen.data_for_bins(rng, pairs, rng.randint(0, 15))), np.array(e), name=f"m{i}") for i in range(rng.randint(1, 3))]
    col = HistogramCollection(*hs, name="col", title="T")
    cp = col.copy()
    with attach.quiet():
        before_o = [snap.snapshot(x) for x in col.histograms]
        before_c = [snap.snapshot(x) for x in cp.histograms]
        if [snap.diff(a, b) for a, b in zip(before_o, before_c)] != [set()] * len(hs) or cp.name != col.name or cp.title != col.title:
            rec.fail(monitor="C12.copy.equal", op="HistogramCollection.copy", symptom="collection copy differs from the original", diff=["members"], detail={})
    target, other, snaps = (cp, col, before_o) if rng.random() < 0.5 else (col, cp, before_c)
    try:
        m = rng.choice(target.histograms)
        v = np.asarray(gen.data_for_bins(rng, pairs, 4), dtype=float)
        how = rng.randrange(4)
        if how == 0:
            m.fill_n(v)
        elif how == 1:
            m.fill(float(v[0]), 2.5)
        elif how == 2:
            m *= 3
        else:
            m.name = "renamed"
            m.meta_data["k"] = 1
    except Exception as ex:
        rec.fail(monitor="C12.copy.equal", op="HistogramCollection.copy", symptom=f"member of a collection copy is not usable: {type(ex).__name__}", diff=["raised"], detail={"error": str(ex)[:160]})
        return
    with attach.quiet():
        for x, b in zip(other.histograms, snaps):
            d = snap.diff(b, snap.snapshot(x))
            if d:
                rec.fail(monitor="C12.copy.equal", op="HistogramCollection.copy", symptom="mutating a member on one side of a collection copy changed the other side", diff=sorted(d), detail={})


def one_history(ctx, index: int, rng: random.Random):
    world = ctx.world
    world.clear()
    h = History(ctx, rng, world, profile="C12")
    h.run(rng.randint(8, 30 if ctx.quick else 60), WEIGHTS)
    if rng.random() < 0.3:
        copy_checks(ctx, rng, world)
    if rng.random() < 0.15:
        collection_copy_check(ctx, rng)
    st = h.stats
    nontrivial = st["derivations"] >= 1 and st["grow"] >= 1
    ctx.rec.case(h.log, nontrivial, cls=f"deriv{min(st['derivations'], 5)}/grow{min(st['grow'], 3)}", sample={"log": h.log[:25], "stats": st})
    for k, v in st.items():
        ctx.rec.notes.setdefault("history_stats", {})
        ctx.rec.notes["history_stats"][k] = ctx.rec.notes["history_stats"].get(k, 0) + v


def attach_monitors(ctx):
    ctx.world = World(passive=False)
    attach_world(ctx.world)


def attach_passive():
    """Under the repository's tests: world monitor with automatic registration of every histogram created;
    bystander changes are reported only between objects related by derivation."""
    from ..world import World, attach_world, register_all_new

    w = World(passive=True, max_population=10)
    attach_world(w)
    register_all_new(w)


def run(ctx):
    attach_monitors(ctx)
    ctx.run_cases(ctx.scale(350, 3000), one_history)
