"""C12 - derived histograms are independent of their sources (world monitor over random histories)."""
from __future__ import annotations

import random
import warnings

import numpy as np

from .. import attach, core, snapshot as snap
from ..world import World, attach_world
from ..worldload import History

DECIDING_MONITORS = ["C12.world.independence", "C12.copy.equal"]
PASSIVE_UNDER_TESTS = True
RULE = ("random histories over a population of <= 8 histograms (1D static/gapped/adaptive, 2D static/adaptive, 3D): constructions, "
        "derivations (copy, +, -, *, /, normalize, merge_bins, projection, select / indexing, T, partial_normalize, accumulate, JSON "
        "round trip), mutations (fill with adaptive growth, fill_n, in-place arithmetic, set_dtype, in-place normalize / merge, direct "
        "metadata edits); around every public call all live objects are snapshotted and every object other than the mutation target must "
        "be bit-identical afterwards; non-trivial = history with >= 1 derivation and >= 1 later mutation that changed the bins of the "
        "mutated object (adaptive growth / merge); distinct by hash of the operation log Derivations include from_dict(to_dict()), create_from_dict and the xarray round trip; histograms are also created from the binning object of another one; nested metadata values exist from the start (also under keys named like constructor arguments). Collections: copy (members and the collection's own bins independent; a grown copy can be copied again) and sum() over 0-3 members.")
ASSUMPTIONS = [
    "identity selections returning self and construction from a user-supplied binning object share state by design and are not generated (collection members and copies, sums of one, mutable metadata values are)",
    "snapshots read public attributes only",
]

WEIGHTS = {"create": 1.0, "derive": 4.0, "mutate": 5.0, "fault": 0.6}


def copy_checks(ctx, rng, world):
    """copy() == original incl. class, dtype, metadata, statistics; copy(include_frequencies=False) empty and usable."""
    rec = ctx.rec
    h = History(ctx, rng, world, profile="C12")
    o = h.create()
    if o is None:
        return
    rec.mon("C12.copy.equal")
    with attach.quiet():
        s0 = snap.snapshot(o)
    c = o.copy()
    with attach.quiet():
        s1 = snap.snapshot(c)
    d = snap.diff(s0, s1)
    if d:
        rec.fail(monitor="C12.copy.equal", op="copy", symptom="copy() differs from the original", diff=sorted(d), detail={"log": h.log})
    try:
        e = o.copy(include_frequencies=False)
        with attach.quiet():
            s2 = snap.snapshot(e)
        if float(np.abs(snap.arr_values(s2["frequencies"]).astype(float)).sum()) != 0 or float(np.abs(snap.arr_values(s2["errors2"]).astype(float)).sum()) != 0 or s2["bins"] != s0["bins"]:
            rec.fail(monitor="C12.copy.equal", op="copy(include_frequencies=False)", symptom="empty copy is not empty over the same bins", diff=["frequencies", "bins"], detail={"log": h.log})
        v = h.values_for(e, 3)
        if e.ndim == 1:
            ix = e.fill(float(v[0, 0]), 3)
            inside = ix is not None and 0 <= ix < e.shape[0]
        else:
            ix = e.fill(v[0], 3)
            inside = ix is not None
        with attach.quiet():
            tf, te = float(np.asarray(e.frequencies, dtype=float).sum()), float(np.asarray(e.errors2, dtype=float).sum())
            if inside and not o.is_adaptive() and (tf != 3.0 or te != 9.0):
                rec.fail(monitor="C12.copy.equal", op="copy(include_frequencies=False)", symptom="the emptied copy does not count a filled value like a new histogram (contents 3, errors2 9 expected)",
                         diff=["frequencies", "errors2"], detail={"total": tf, "errors2_total": te, "log": h.log})
        e.fill_n(v[:, 0] if e.ndim == 1 else v)
        e += e.copy()
        if not o.is_adaptive():
            e += o
    except Exception as ex:
        rec.fail(monitor="C12.copy.equal", op="copy(include_frequencies=False)", symptom=f"empty copy is not usable: {type(ex).__name__}", diff=["raised"],
                 detail={"error": str(ex)[:200], "log": h.log})


def collection_copy_check(ctx, rng):
    """HistogramCollection.copy(): members of the copy and of the original are independent of each other."""
    import physt
    from physt.histogram_collection import HistogramCollection
    from .. import gen

    rec = ctx.rec
    rec.mon("C12.copy.equal")
    e = gen.edges(rng, rng.randint(1, 6))
    pairs = gen.pairs_from_edges(e)
    adaptive_members = rng.random() < 0.4
    if adaptive_members:
        # adaptive members: growing one member of a copy may not reach its siblings (they would keep contents for fewer bins)
        col = physt.collection({f"m{i}": np.asarray([rng.uniform(0, 3) for _ in range(rng.randint(1, 6))]) for i in range(rng.randint(2, 3))}, "fixed_width", bin_width=1.0, adaptive=True)
        col.name, col.title = "col", "T"
        hs = list(col.histograms)
        pairs = [[-6.0, -5.0], [8.0, 9.0]]  # values to fill later: outside the current range
    else:
        hs = [physt.h1(np.asarray(gen.data_for_bins(rng, pairs, rng.randint(0, 15))), np.array(e), name=f"m{i}") for i in range(rng.randint(1, 3))]
        col = HistogramCollection(*hs, name="col", title="T")
    cp = col.copy()
    with attach.quiet():
        before_o = [snap.snapshot(x) for x in col.histograms]
        before_c = [snap.snapshot(x) for x in cp.histograms]
        if [snap.diff(a, b) for a, b in zip(before_o, before_c)] != [set()] * len(hs) or cp.name != col.name or cp.title != col.title:
            rec.fail(monitor="C12.copy.equal", op="HistogramCollection.copy", symptom="collection copy differs from the original", diff=["members"], detail={})
    target, other, snaps = (cp, col, before_o) if rng.random() < 0.5 else (col, cp, before_c)
    if adaptive_members and rng.random() < 0.5:
        # the copy behaves as its original: the same growing fill on the same member of both leaves both collections reporting
        # the same bins of their own, and the grown state can be copied again
        i = rng.randrange(len(hs))
        v = float(rng.choice([-5.5, 8.5, 12.5]))
        try:
            col.histograms[i].fill(v)
            cp.histograms[i].fill(v)
            own_o, own_c = np.asarray(col.bins), np.asarray(cp.bins)
            again = None
            if own_o.shape == own_c.shape:
                again = cp.copy()
        except Exception as ex:
            rec.fail(monitor="C12.copy.equal", op="HistogramCollection.copy", symptom=f"a collection copy whose member grew cannot be used / copied again: {type(ex).__name__}", diff=["raised"], detail={"error": str(ex)[:160], "member": i})
            return
        if own_o.shape != own_c.shape or not np.array_equal(own_o, own_c):
            rec.fail(monitor="C12.copy.equal", op="HistogramCollection.copy", symptom="after the same fill on both sides the copy of a collection reports other bins of its own than the original (its binning is a member's object)", diff=["bins"],
                     detail={"member": i, "original_bins": int(own_o.shape[0]), "copy_bins": int(own_c.shape[0])})
        with attach.quiet():
            if again is not None and any(snap.diff(snap.snapshot(a), snap.snapshot(b)) for a, b in zip(cp.histograms, again.histograms)):
                rec.fail(monitor="C12.copy.equal", op="HistogramCollection.copy", symptom="collection copy differs from the original", diff=["members"], detail={"grown": True})
        return
    try:
        m = rng.choice(target.histograms)
        v = np.asarray(gen.data_for_bins(rng, pairs, 4), dtype=float)
        how = rng.randrange(4)
        if how == 0:
            m.fill_n(v)
        elif how == 1:
            m.fill(float(v[0]), 2.5)
        elif how == 2:
            m *= 3
        else:
            m.name = "renamed"
            m.meta_data["k"] = 1
    except Exception as ex:
        rec.fail(monitor="C12.copy.equal", op="HistogramCollection.copy", symptom=f"member of a collection copy is not usable: {type(ex).__name__}", diff=["raised"], detail={"error": str(ex)[:160]})
        return
    with attach.quiet():
        for x, b in zip(other.histograms, snaps):
            d = snap.diff(b, snap.snapshot(x))
            if d:
                rec.fail(monitor="C12.copy.equal", op="HistogramCollection.copy", symptom="mutating a member on one side of a collection copy changed the other side", diff=sorted(d), detail={})
        for x in target.histograms:
            probs = snap.wellformed_problems(x)
            if probs:
                rec.fail(monitor="C12.copy.equal", op="HistogramCollection.copy", symptom="mutating one member of a collection (copy) left a sibling ill-formed", diff=["wellformed"],
                         detail={"problems": probs[:3], "adaptive": adaptive_members})
                break


def collection_sum_check(ctx, rng):
    """HistogramCollection.sum() is arithmetic like any other: the result is a histogram of its own, for 0, 1, 2 or 3 members."""
    import physt
    from physt.histogram_collection import HistogramCollection
    from .. import gen

    rec = ctx.rec
    rec.mon("C12.world.independence")
    e = gen.edges(rng, rng.randint(1, 6))
    pairs = gen.pairs_from_edges(e)
    k = rng.choice([0, 1, 1, 1, 2, 3])
    hs = [physt.h1(np.asarray(gen.data_for_bins(rng, pairs, rng.randint(1, 15))), np.array(e), name=f"m{i}") for i in range(k)]
    col = HistogramCollection(*hs) if k else HistogramCollection(binning=physt.h1(None, np.array(e)).binning.copy())
    try:
        total = col.sum()
        if k == 0:
            # the empty sum is a histogram like any other: it can be added to, and carries no stray state
            extra = physt.h1(np.asarray(gen.data_for_bins(rng, pairs, 5)), np.array(e))
            both = total + extra
            with attach.quiet():
                if snap.diff(snap.snapshot(both, with_stats=False), snap.snapshot(extra, with_stats=False), ignore=("name", "title", "meta_data")):
                    rec.fail(monitor="C12.world.independence", op="HistogramCollection.sum", symptom="the sum of an empty collection plus a histogram is not that histogram", diff=["contents"], detail={})
    except Exception as ex:
        rec.fail(monitor="C12.world.independence", op="HistogramCollection.sum", symptom=f"sum of a collection raised {type(ex).__name__}", diff=["raised"], detail={"members": k})
        return
    with attach.quiet():
        before = [snap.snapshot(x) for x in col.histograms]
    if any(total is x for x in col.histograms):
        rec.fail(monitor="C12.world.independence", op="HistogramCollection.sum", symptom="the sum of a collection is one of its members (not a histogram of its own)", diff=["identity"], detail={"members": k})
    how = rng.randrange(3)
    try:
        if how == 0:
            total.fill_n(np.asarray(gen.data_for_bins(rng, pairs, 4), dtype=float))
        elif how == 1:
            total *= 3
        else:
            total.name = "all"
            total.meta_data["k"] = [1]
    except Exception:
        return
    with attach.quiet():
        for x, b in zip(col.histograms, before):
            d = snap.diff(b, snap.snapshot(x))
            if d:
                rec.fail(monitor="C12.world.independence", op="HistogramCollection.sum", symptom="changing the sum of a collection changed a member", diff=sorted(d), detail={"members": k})


def options_check(ctx, rng):
    """Sources built with non-default options (keep_missed off, explicit dtype, ND): whatever is derived from them owns all of
    its state - also the counters of missed weight, which additions update even when the tracking flag is off."""
    import physt
    from .. import gen

    rec = ctx.rec
    rec.mon("C12.copy.equal")
    d = rng.choice([1, 1, 2])
    edges = [np.array(gen.regular_edges(rng, rng.randint(2, 5))) for _ in range(d)]
    pairs = [gen.pairs_from_edges(e.tolist()) for e in edges]

    def rows(n, outside):
        return np.array([gen.data_for_bins(rng, p, n, outside=outside) for p in pairs], dtype=float).T.reshape(n, d)

    def make(n, outside, **kw):
        r = rows(n, outside)
        return physt.h1(r[:, 0], edges[0].copy(), **kw) if d == 1 else physt.h(r, [e.copy() for e in edges], **kw)

    keep = rng.random() < 0.4
    try:
        with warnings.catch_warnings():
            warnings.simplefilter("ignore")
            src = make(rng.randint(1, 10), True, keep_missed=keep)
            how = rng.choice(["copy", "add", "mul", "merge", "slice", "copy_empty"])
            if how == "copy":
                der = src.copy()
            elif how == "add":
                der = src + make(2, False, keep_missed=keep)
            elif how == "mul":
                der = src * 2
            elif how == "merge":
                der = src.merge_bins(1)
            elif how == "slice":
                der = src[:] if d == 1 else src[:, :]
            else:
                der = src.copy(include_frequencies=False)
            part = make(8, True)  # tracks what it missed: carries out-of-range weight
            part.fill_n(rows(3, True)[:, 0] if d == 1 else rows(3, True))
            target, other = (der, src) if rng.random() < 0.6 else (src, der)
            with attach.quiet():
                before = snap.snapshot(other)
            mut = rng.choice(["iadd_part", "iadd_part", "keep_on_fill", "isub"])
            if mut == "iadd_part":
                target += part
            elif mut == "keep_on_fill":
                target.keep_missed = True
                far = [float(e[-1] + 5) for e in edges]
                target.fill(far[0] if d == 1 else far, 2)
            else:
                target -= target * 0.5
    except Exception as ex:
        rec.fail(monitor="C12.copy.equal", op="options", symptom=f"derivation / mutation with non-default options raised {type(ex).__name__}", diff=["raised"], detail={"error": str(ex)[:200]})
        return
    with attach.quiet():
        dd = snap.diff(before, snap.snapshot(other))
        if dd:
            rec.fail(monitor="C12.copy.equal", op=f"{how} then {mut}", symptom="mutating one of (source, derived histogram) changed what the other one reports", diff=sorted(dd),
                     detail={"keep_missed": keep, "derivation": how, "mutation": mut, "mutated": "derived" if target is der else "source", "dim": d})


def one_history(ctx, index: int, rng: random.Random):
    world = ctx.world
    world.clear()
    h = History(ctx, rng, world, profile="C12")
    h.run(rng.randint(8, 30 if ctx.quick else 60), WEIGHTS)
    if rng.random() < 0.3:
        copy_checks(ctx, rng, world)
    if rng.random() < 0.15:
        collection_copy_check(ctx, rng)
        collection_sum_check(ctx, rng)
    if rng.random() < 0.4:
        options_check(ctx, rng)
    st = h.stats
    nontrivial = st["derivations"] >= 1 and st["grow"] >= 1
    ctx.rec.case(h.log, nontrivial, cls=f"deriv{min(st['derivations'], 5)}/grow{min(st['grow'], 3)}", sample={"log": h.log[:25], "stats": st})
    for k, v in st.items():
        ctx.rec.notes.setdefault("history_stats", {})
        ctx.rec.notes["history_stats"][k] = ctx.rec.notes["history_stats"].get(k, 0) + v


def attach_monitors(ctx):
    ctx.world = World(passive=False)
    attach_world(ctx.world)


def attach_passive():
    """Under the repository's tests: world monitor with automatic registration of every histogram created;
    bystander changes are reported only between objects related by derivation."""
    from ..world import World, attach_world, register_all_new

    w = World(passive=True, max_population=10)
    attach_world(w)
    register_all_new(w)


def run(ctx):
    attach_monitors(ctx)
    ctx.run_cases(ctx.scale(350, 3000), one_history)
