"""C05 - adding histograms equals histogramming the combined data."""
from __future__ import annotations

import math
import random
import warnings

import numpy as np

from .. import attach, gen, model, snapshot as snap
from ..monitors import algebra, construct

DECIDING_MONITORS = ["C05.add.post", "C05.partition.equiv", "C05.add.refusal"]
PASSIVE_UNDER_TESTS = True
RULE = ("a data set is partitioned into chunks, each chunk histogrammed over the same static bins (1D regular/irregular/gapped, 2-3D) or "
        "the same adaptive fixed-width grid, and the partial histograms are combined in random order and association through +, +=, "
        "sum(), HistogramCollection.sum and (1D) the dask facade; every observed addition is checked interval-wise by the per-call monitor, "
        "the combined histogram against the exact model of all data, two different summation orders against each other, operands for "
        "immutability; incompatible / other-dimension / non-histogram operands must be refused; non-trivial = >= 3 chunks and (>= 1 "
        "chunk with missed values or an adaptive extension on both sides); distinct by hash of (bins, chunks, order) Plus bins a few ulp of their edges wide (whole-bin shifts must be refused; adaptive chunks at 4e15), and `case_untracked`: an operand that does not keep its missed values makes the under / overflow of the sum unknown in either order. `case_untracked_adaptive`: the same through the adaptive branch (adaptive histogram plus a fixed-width one on its grid that dropped values uncounted).")
ASSUMPTIONS = [
    "dyadic weights: all sums exact and order-independent, compared with ==; a decimal-weight class (0.1, 0.2, ...) is compared within rounding",
    "bins are the same bins only if their edges are equal: operands on neighbouring bins far from zero (offsets 1e5 .. 1.7e9) are generated and judged",
]


def attach_monitors():
    algebra.attach_algebra_monitors(("add",))


def _combine(rng, parts, rec, desc):
    """Random order and association over +, +=, sum()."""
    items = list(parts)
    rng.shuffle(items)
    how = rng.choice(["fold+", "fold+=", "sum", "tree", "collection"])
    if how == "sum" or len(items) == 1:
        return sum(items) if len(items) > 1 else items[0] + items[0].copy(include_frequencies=False), how
    if how == "collection":
        from physt.histogram_collection import HistogramCollection

        if items[0].ndim == 1 and all(type(x).__name__ == "Histogram1D" for x in items) and not items[0].is_adaptive():
            col = HistogramCollection(*items)
            return col.sum(), how
        how = "fold+"
    if how == "fold+":
        acc = items[0]
        for x in items[1:]:
            acc = acc + x if rng.random() < 0.7 else x + acc
        return acc, how
    if how == "fold+=":
        acc = items[0].copy()
        for x in items[1:]:
            acc += x
        return acc, how
    while len(items) > 1:
        i = rng.randrange(len(items) - 1)
        a, b = items[i], items[i + 1]
        items[i:i + 2] = [a + b]
    return items[0], "tree"


def case_static(ctx, index, rng: random.Random):
    import physt

    rec = ctx.rec
    d = rng.choice([1, 1, 1, 2, 3])
    n = rng.randint(0, 60 if ctx.quick else 200)
    axes = []
    for ax in range(d):
        if d == 1 and rng.random() < 0.25:
            pairs = gen.gapped_pairs(rng, rng.randint(2, 6))
        else:
            pairs = gen.pairs_from_edges(gen.edges(rng, rng.randint(1, 8 if d == 1 else 4)))
        axes.append(pairs)
    cols = [gen.data_for_bins(rng, p, n, nan_ok=(d == 1 and rng.random() < 0.2)) for p in axes]
    rows = np.array(cols, dtype=float).T.reshape(n, d)
    wts, wkind = gen.weights(rng, n)
    if n == 0:
        wts = None
    gapped = d == 1 and not gen.is_consecutive_pairs(axes[0])
    if gapped and (wts is None or wkind in ("int", "ones")):
        wts, wkind = [rng.randint(0, 24) / 8 for _ in range(n)], "dyadic"  # integer contents + gaps: known finding D01
        if n == 0:
            wts = None
    nchunks = rng.randint(1, 6)
    cuts = sorted(rng.randint(0, n) for _ in range(nchunks - 1))
    idx = [0] + cuts + [n]
    bins_args = [np.array(p) for p in axes]
    desc = {"d": d, "bins": [gen.hexlist(np.asarray(p).ravel()) for p in axes], "rows": gen.hexlist(rows.ravel()), "weights": wts, "cuts": idx}

    def make(lo, hi):
        kw = {}
        if wts is not None:
            kw["weights"] = np.asarray(wts[lo:hi], dtype=float)
        if gapped and "weights" not in kw:
            kw["dtype"] = "float64"
        if d == 1:
            return physt.h1(rows[lo:hi, 0].copy(), bins_args[0].copy(), **kw)
        return physt.h(rows[lo:hi].copy(), [b.copy() for b in bins_args], **kw)

    try:
        parts = [make(idx[i], idx[i + 1]) for i in range(len(idx) - 1)]
    except Exception as e:
        rec.case(desc, False, cls="raised:construct")
        return
    with attach.quiet():
        before = [snap.snapshot(p) for p in parts]
    try:
        total, how = _combine(rng, parts, rec, desc)
        total2, how2 = _combine(rng, parts, rec, desc)
    except Exception as e:
        rec.mon("C05.partition.equiv")
        rec.fail(monitor="C05.partition.equiv", op="combine", symptom=f"adding histograms over equal bins raised {type(e).__name__}", diff=["raised"],
                 detail={"error": str(e)[:200], **desc})
        rec.case(desc, False, cls="raised:combine")
        return
    rec.mon("C05.partition.equiv")
    with attach.quiet():
        # operands never modified
        for i, p in enumerate(parts):
            dd = snap.diff(before[i], snap.snapshot(p))
            if dd:
                rec.fail(monitor="C05.partition.equiv", op=how, symptom="an operand was modified by the addition", diff=sorted(dd), detail={"operand": i, **desc})
        s1, s2 = snap.snapshot(total), snap.snapshot(total2)
        cmp_keys = ["bins", "frequencies", "errors2"] + list(algebra._missed_keys(s1))
        dd = [k for k in cmp_keys if not _same(s1, s2, k)]
        if dd:
            rec.fail(monitor="C05.partition.equiv", op=f"{how} vs {how2}", symptom="two summation orders give different histograms", diff=dd,
                     detail={"a": _num(s1), "b": _num(s2), **desc})
        # against the model of all data
        w = None if wts is None else np.asarray(wts, dtype=float)
        if d == 1:
            ok = _check_1d_total(rec, total, rows[:, 0], w, desc)
        else:
            construct.check_nd(rec, total, rows, w, op=f"sum[{how}]", detail=desc, monitor="C05.partition.equiv")
            for r in rec.records[-3:]:
                if r["monitor"] == "C05.partition.equiv" and r["property"] == "C02":
                    r["property"] = "C05"
        # statistics of the sum are those of all data (in-range data only: C14's precondition)
        if d == 1 and hasattr(total, "statistics"):
            fin = rows[:, 0][~np.isnan(rows[:, 0])]
            inside = len(fin) == 0 or (fin.min() >= axes[0][0][0] and fin.max() <= axes[0][-1][1] and not gapped)
    has_missed = any(float(getattr(p, "missed", 0) or 0) > 0 or (hasattr(p, "underflow") and (float(p.underflow) > 0 or float(p.overflow) > 0)) for p in parts)
    rec.case(desc, len(parts) >= 3 and has_missed, cls=f"static/{d}d/{how}/{wkind}",
             sample={"bins": [np.asarray(p).tolist()[:4] for p in axes], "chunks": [int(idx[i + 1] - idx[i]) for i in range(len(idx) - 1)], "how": [how, how2],
                     "total": float(total.total), "first_rows": rows[:5].tolist()})


def _same(s1, s2, k):
    a, b = s1.get(k), s2.get(k)
    if isinstance(a, tuple) and len(a) == 3 and isinstance(a[2], bytes):
        return snap.values_equal_numeric(a, b)
    return a == b


def _num(s):
    return {k: (snap.arr_values(v).astype(float).tolist() if isinstance(v, tuple) and len(v) == 3 and isinstance(v[2], bytes) else v)
            for k, v in s.items() if k in ("frequencies", "errors2", "underflow", "overflow", "missed")}


def _check_1d_total(rec, total, data, w, desc):
    n0 = rec.record_count
    construct.check_h1(rec, total, data, w, op="sum", detail=desc, dtype=str(total.dtype))
    # re-label: the partition-equivalence oracle belongs to C05
    for r in rec.records:
        if r["property"] == "C01" and r["op"] == "sum":
            r["property"] = "C05"
            r["monitor"] = "C05.partition.equiv"
    return rec.record_count == n0


def case_adaptive(ctx, index, rng: random.Random):
    import physt

    rec = ctx.rec
    d = rng.choice([1, 1, 2])
    widths = [rng.choice([0.1, 0.2, 0.3, 0.5, 1.0, 2.5, 0.7]) for _ in range(d)]
    shift = rng.choice([None, None, 0.5, 0.25])
    n = rng.randint(1, 50 if ctx.quick else 150)
    centre = [rng.choice([0.0, 3.0, -7.0, 100.0]) for _ in range(d)]
    if rng.random() < 0.2:
        # large offsets (counters, time stamps): bins of different chunks differ by far less than numpy's allclose tolerance,
        # yet they are different bins - the sum lives on the union of the ranges, not index by index
        widths = [rng.choice([1.0, 0.5, 2.5, 60.0]) for _ in range(d)]
        centre = [rng.choice([1e5, 1e6, 1.7e9, -3e7]) for _ in range(d)]
        shift = rng.choice([None, 0.5])
        if rng.random() < 0.3:
            # bins a few ulp of their edges wide: every edge and value is still an exact number
            widths = [rng.choice([1.0, 2.0]) for _ in range(d)]
            centre = [rng.choice([4e15, 1.7e15, 2.0**51]) for _ in range(d)]
            shift = None
    spread = rng.choice([3, 10, 30]) if d == 1 else rng.choice([3, 8])
    rows = np.array([[centre[ax] + widths[ax] * (rng.randint(-spread, spread) + rng.choice([0.0, 0.5, rng.random()])) for ax in range(d)] for _ in range(n)], dtype=float)
    wts, wkind = gen.weights(rng, n)
    approx = False
    if rng.random() < 0.15:
        # decimal weights (sums carry rounding): the totals are compared within rounding, nothing may be refused or lost for it
        wts, wkind, approx = [rng.choice([0.1, 0.2, 0.3, 0.7, 1.1]) for _ in range(n)], "decimal", True
    nchunks = rng.randint(2, 6)
    cuts = sorted(rng.randint(0, n) for _ in range(nchunks - 1))
    idx = [0] + cuts + [n]
    kw0 = {"adaptive": True}
    if shift is not None:
        kw0["bin_shift"] = shift
    # the same grid may be described with a shift that is whole bins away (e.g. width 0.5 with bin_shift 0 or 0.5): such
    # operands are either refused or merged on the true common grid - never merged k bins off
    alt_shift = d == 1 and rng.random() < 0.25 and (widths[0] * 2**20) % 1 == 0
    desc = {"d": d, "widths": widths, "shift": shift, "rows": gen.hexlist(rows.ravel()), "weights": wts, "cuts": idx, "alt_shift": alt_shift}
    part_no = [0]

    def make(lo, hi):
        kw = dict(kw0)
        part_no[0] += 1
        if alt_shift and part_no[0] % 2 == 0:
            kw["bin_shift"] = (shift or 0.0) + widths[0] * rng.choice([1, 2, -1])
        if wts is not None:
            kw["weights"] = np.asarray(wts[lo:hi], dtype=float)
        if d == 1:
            if hi == lo:
                kw.pop("weights", None)
                if rng.random() < 0.5:
                    kw["dtype"] = rng.choice(["float64", "float32", "int32"])  # an empty operand still takes part in the type promotion
                return physt.h1(None, "fixed_width", bin_width=widths[0], **kw)
            return physt.h1(rows[lo:hi, 0].copy(), "fixed_width", bin_width=widths[0], **kw)
        if hi == lo:
            kw.pop("weights", None)
            if rng.random() < 0.5:
                kw["dtype"] = rng.choice(["float64", "float32", "int32"])
            return physt.h(None, "fixed_width", bin_width=list(widths), dim=d, **kw)
        return physt.h(rows[lo:hi].copy(), "fixed_width", bin_width=list(widths), **kw)

    try:
        parts = [make(idx[i], idx[i + 1]) for i in range(len(idx) - 1)]
    except Exception as e:
        rec.case(desc, False, cls="raised:construct")
        rec.mon("C05.partition.equiv")
        rec.fail(monitor="C05.partition.equiv", op="construct", symptom=f"adaptive chunk histogram refused: {type(e).__name__}", diff=["raised"],
                 detail={"error": str(e)[:200], **desc})
        return
    with attach.quiet():
        before = [snap.snapshot(p) for p in parts]
    try:
        total, how = _combine(rng, parts, rec, desc)
        total2, how2 = _combine(rng, parts, rec, desc)
    except Exception as e:
        if alt_shift and isinstance(e, ValueError):
            rec.case(desc, False, cls="adaptive/alt_shift_refused")  # refusing differently described grids is fine
            return
        rec.mon("C05.partition.equiv")
        rec.fail(monitor="C05.partition.equiv", op="combine", symptom=f"adding adaptive histograms on one grid raised {type(e).__name__}", diff=["raised"],
                 detail={"error": str(e)[:200], **desc})
        rec.case(desc, False, cls="raised:combine")
        return
    rec.mon("C05.partition.equiv")
    with attach.quiet():
        for i, p in enumerate(parts):
            dd = snap.diff(before[i], snap.snapshot(p))
            if dd:
                rec.fail(monitor="C05.partition.equiv", op=how, symptom="an operand was modified by the addition", diff=sorted(dd), detail={"operand": i, **desc})
            probs = snap.wellformed_problems(p)
            if probs:
                rec.fail(monitor="C05.partition.equiv", op=how, symptom="an operand is ill-formed after the addition", diff=["wellformed"], detail={"operand": i, "problems": probs, **desc})
        s1, s2 = snap.snapshot(total), snap.snapshot(total2)
        m1, m2 = snap.interval_map(s1), snap.interval_map(s2)
        if approx and m1 is not None and m2 is not None and set(m1) == set(m2):
            orders_differ = any(not np.allclose(m1[k_], m2[k_], rtol=1e-12, atol=1e-12) for k_ in m1)
        else:
            orders_differ = m1 != m2
        if orders_differ:
            rec.fail(monitor="C05.partition.equiv", op=f"{how} vs {how2}", symptom="two summation orders give different histograms", diff=["frequencies"], detail=desc)
        bins = [snap.arr_values(t) for t in s1["bins"]]
        w = None if wts is None else np.asarray(wts, dtype=float)
        shape, f, e, missed, tot, nanw, st = model.bin_nd(bins, [False] * d, rows, w)
        exp_f, exp_e = model.dense(shape, f), model.dense(shape, e)
        got_f, got_e = snap.arr_values(s1["frequencies"]).astype(float), snap.arr_values(s1["errors2"]).astype(float)
        same_f = got_f.shape == exp_f.shape and (np.allclose(got_f, exp_f, rtol=1e-12, atol=1e-12) if approx else np.array_equal(got_f, exp_f))
        if not same_f or missed != 0:
            rec.fail(monitor="C05.partition.equiv", op=how, symptom="sum of adaptive chunk histograms differs from the histogram of all data over the final bins",
                     diff=["frequencies"], detail={"lost": float(missed), "got_total": float(got_f.sum()), "expected_total": float(tot), **desc})
        elif not (np.allclose(got_e, exp_e, rtol=1e-12, atol=1e-12) if approx else np.array_equal(got_e, exp_e)):
            rec.fail(monitor="C05.partition.equiv", op=how, symptom="errors2 of the adaptive sum differ from the squared weights of all data", diff=["errors2"], detail=desc)
        for ax in range(d):
            b = bins[ax]
            mn, mx = float(rows[:, ax].min()), float(rows[:, ax].max())
            if len(b) == 0 or not (b[0, 0] <= mn < b[0, 1]) or not (b[-1, 0] <= mx < b[-1, 1]):
                rec.fail(monitor="C05.partition.equiv", op=how, symptom="bins of the adaptive sum do not span exactly the union of the data ranges", diff=["bins", "span"],
                         detail={"axis": ax, "min": mn, "max": mx, "first": b[:1], "last": b[-1:], **desc})
    firsts = [snap.arr_values(b["bins"][0]) for b in before]
    nonempty = [x for x in firsts if len(x)]
    both = len(nonempty) >= 2 and len({float(x[0, 0]) for x in nonempty}) > 1 and len({float(x[-1, 1]) for x in nonempty}) > 1
    rec.case(desc, len(parts) >= 3 and both, cls=f"adaptive/{d}d/{how}/{wkind}",
             sample={"widths": widths, "shift": shift, "chunks": [int(idx[i + 1] - idx[i]) for i in range(len(idx) - 1)], "how": [how, how2],
                     "final_range": [[float(b[0, 0]), float(b[-1, 1])] for b in bins if len(b)], "total": float(total.total)})


def case_refusal(ctx, index, rng: random.Random):
    import physt

    rec = ctx.rec
    rec.mon("C05.add.refusal")
    e1 = gen.edges(rng, rng.randint(1, 6))
    a = physt.h1(np.asarray(gen.data_for_bins(rng, gen.pairs_from_edges(e1), 10)), np.array(e1))
    kind = rng.choice(["bins", "dim", "nonhist", "array", "adaptive_missed", "array_after_free_block", "bins_few_ulp", "zero_dim_array"])
    if kind == "bins_few_ulp":
        # bins that are only a few ulp of their edges wide (micro-second time stamps, large counters): every edge is an exact
        # number, and bins one or more whole bins apart are different bins
        base = rng.choice([2.0**50, 2.0**51, 4e15, 1.7e15, -(2.0**51)])
        bw = rng.choice([1.0, 2.0]) if abs(base) > 2.0**50 else rng.choice([0.5, 1.0, 2.0])
        nb = rng.randint(1, 5)
        e1 = [base + bw * i for i in range(nb + 1)]
        a = physt.h1([e1[0], e1[-1]], np.array(e1))
    with attach.quiet():
        sa = snap.snapshot(a)
    sb = None
    try:
        with warnings.catch_warnings():
            warnings.simplefilter("ignore")
            if kind == "bins":
                e2 = np.linspace(e1[0] - 1.7, e1[-1] + 3.1, len(e1) + rng.choice([1, 2]))
                b = physt.h1([float(e2[0])], e2)
                with attach.quiet():
                    sb = snap.snapshot(b)
                r = a + b if rng.random() < 0.5 else b + a
            elif kind == "bins_few_ulp":
                e2 = np.array(e1) + bw * rng.choice([1, 2, 3, -1, -2])
                b = physt.h1([float(e2[0])], e2)
                with attach.quiet():
                    sb = snap.snapshot(b)
                r = a + b if rng.random() < 0.5 else b + a
            elif kind == "dim":
                b = physt.h(np.zeros((2, 2)), [np.array(e1), np.array(e1)])
                r = a + b if rng.random() < 0.5 else b + a
            elif kind == "nonhist":
                r = a + rng.choice([1, 2.5, "x", None])
            elif kind == "zero_dim_array":
                # only the number 0 may start a sum: an array without axes is an array operand all the same (numpy says ndim 0, not scalar)
                z = rng.choice([np.array(0), np.zeros(()), np.array(0.0)])
                r = (z + a) if rng.random() < 0.5 else sum([a, a.copy()], z)
            elif kind == "array":
                r = a + np.ones(a.shape)
            elif kind == "array_after_free_block":
                from physt.config import config

                try:
                    with config.enable_free_arithmetics():
                        _ = a + np.ones(a.shape)  # accepted here
                        _ = a + np.ones(a.shape[0] + 1)  # wrong shape: the exception leaves the block
                except Exception:
                    pass
                r = a + np.ones(a.shape) if rng.random() < 0.5 else np.ones(a.shape) + a
            else:
                w = rng.choice([0.5, 1.0])
                g = physt.h1([0.2, 1.3], "fixed_width", bin_width=w, adaptive=True)
                o = physt.h1([0.3, 50.0, -50.0], "fixed_width", bin_width=w, range=(0, 8 * w))
                with attach.quiet():
                    a, sa = g, snap.snapshot(g)
                r = g + o
        raised = None
    except Exception as e:
        raised = e
    if raised is None:
        rec.fail(monitor="C05.add.refusal", op=f"add/{kind}", symptom="incompatible / non-histogram operand was not refused", diff=["not_refused"], detail={"kind": kind, "edges": e1})
    with attach.quiet():
        dd = snap.diff(sa, snap.snapshot(a))
        if dd:
            rec.fail(monitor="C05.add.refusal", op=f"add/{kind}", symptom="operand changed by a refused addition", diff=sorted(dd), detail={"kind": kind})
    rec.case({"kind": kind, "edges": e1}, True, cls=f"refusal/{kind}")


def case_dask(ctx, index, rng: random.Random):
    """Partition invariance through the dask facade (threaded scheduler)."""
    try:
        import dask
        import dask.array as da
        from physt.compat import dask as pdask
    except Exception:
        ctx.rec.skip("C05.dask", "unavailable")
        return
    rec = ctx.rec
    n = rng.randint(5, 120)
    w = rng.choice([0.5, 1.0, 2.5, 0.25])
    data = np.array([rng.choice([0.0, 10.0]) + w * (rng.randint(-20, 20) + rng.choice([0, 0.5, rng.random()])) for _ in range(n)])
    chunks = rng.randint(1, max(1, n // 2))
    desc = {"data": gen.hexlist(data), "chunks": chunks, "width": w}
    try:
        with dask.config.set(scheduler="threads"):
            h = pdask.h1(da.from_array(data, chunks=chunks), "fixed_width", bin_width=w)
    except Exception as e:
        rec.mon("C05.partition.equiv")
        rec.fail(monitor="C05.partition.equiv", op="dask.h1", symptom=f"dask histogram refused valid data: {type(e).__name__}", diff=["raised"], detail={"error": str(e)[:200], **desc})
        return
    rec.mon("C05.partition.equiv")
    with attach.quiet():
        bins = np.asarray(h.bins, dtype=float)
        m = model.bin_1d(bins, data, None, last_closed=False)
        got = np.asarray(h.frequencies).astype(float)
        if got.shape != (len(bins),) or not np.array_equal(got, model.frac_array(m.freq)) or float(h.total) != n:
            rec.fail(monitor="C05.partition.equiv", op="dask.h1", symptom="dask chunk-wise histogram differs from the histogram of all data", diff=["frequencies"],
                     detail={"total": float(h.total), "n": n, **desc})
    rec.case(desc, chunks < n and n > 10, cls="dask")


def case_adaptive_missed(ctx, index, rng: random.Random):
    """An adaptive operand that carries under / overflow (built with range=): the sum is either refused or it is the histogram
    of all values over the final bins - weight that the grown bins now cover may not stay behind in under / overflow."""
    import physt

    rec = ctx.rec
    rec.mon("C05.partition.equiv")
    w = rng.choice([1.0, 0.5, 2.0])
    lo, hi = 0.0, w * rng.randint(3, 8)
    inside = [rng.uniform(lo, hi) for _ in range(rng.randint(1, 8))]
    outside = [hi + w * rng.uniform(0.5, 6) for _ in range(rng.randint(1, 4))] + [lo - w * rng.uniform(0.5, 3) for _ in range(rng.randint(0, 2))]
    A = np.array(inside + outside)
    B = np.array([hi + w * rng.uniform(0.2, 8) for _ in range(rng.randint(1, 6))] + [lo - w * rng.uniform(0.2, 5) for _ in range(rng.randint(0, 3))])
    try:
        with warnings.catch_warnings():
            warnings.simplefilter("ignore")
            # (adaptive= together with range= covers all the data: the missed values come from the time before the switch)
            a = physt.h1(A, "fixed_width", bin_width=w, range=(lo, hi))
            a.set_adaptive(True)
            b = physt.h1(B, "fixed_width", bin_width=w, adaptive=True)
    except Exception as e:
        rec.monitor_error("C05.adaptive_missed.make", e)
        return
    order = rng.choice(["a+b", "b+a", "a+=b", "b+=a", "sum"])
    with attach.quiet():
        had_missed = float(a.underflow) + float(a.overflow)
    try:
        with warnings.catch_warnings():
            warnings.simplefilter("ignore")
            if order == "a+b":
                r = a + b
            elif order == "b+a":
                r = b + a
            elif order == "a+=b":
                r = a.copy()
                r += b
            elif order == "b+=a":
                r = b.copy()
                r += a
            else:
                r = sum([a, b])
    except ValueError:
        rec.case(["adaptive_missed", order, "refused"], True, cls=f"adaptive_missed/{order}/refused")
        return
    except Exception as e:
        rec.fail(monitor="C05.partition.equiv", op=order, symptom=f"adding adaptive histograms raised {type(e).__name__}", diff=["raised"], detail={"error": str(e)[:160]})
        return
    with attach.quiet():
        bins = np.asarray(r.bins, dtype=float)
        allv = np.concatenate([A, B])
        m = model.bin_1d(bins, allv, None, last_closed=False)
        got = np.asarray(r.frequencies, dtype=float)
        if got.shape != (len(bins),) or not np.array_equal(got, model.frac_array(m.freq)) or float(r.underflow) != float(m.underflow) or float(r.overflow) != float(m.overflow):
            rec.fail(monitor="C05.partition.equiv", op=order, symptom="sum with an adaptive operand that carried under / overflow is not the histogram of all values over the final bins",
                     diff=["frequencies", "overflow"], detail={"A": A.tolist(), "B": B.tolist(), "range": [lo, hi], "width": w, "bins": [bins[0].tolist(), bins[-1].tolist()],
                                                                "got": got.tolist(), "expected": model.frac_array(m.freq).tolist(), "under_over": [float(r.underflow), float(r.overflow)],
                                                                "expected_under_over": [float(m.underflow), float(m.overflow)]})
    rec.case(["adaptive_missed", order, A.tolist(), B.tolist()], had_missed > 0, cls=f"adaptive_missed/{order}/accepted")


def case_collection_sum(ctx, index, rng: random.Random):
    """sum() over a collection whose members were created one after the other (adaptive or fixed bins) is the histogram of
    all their values, and every member stays the histogram of its own values."""
    import physt
    from physt.histogram_collection import HistogramCollection

    rec = ctx.rec
    rec.mon("C05.partition.equiv")
    w = rng.choice([1.0, 0.5, 2.0])
    adaptive = rng.random() < 0.6
    k = rng.randint(1, 4)
    datas = [np.array([rng.uniform(-2, 2) * (1 + 2 * i * (rng.random() < 0.7)) + 3 * i * rng.choice([0, 1]) for _ in range(rng.randint(1, 8))]) for i in range(k)]
    how = rng.choice(["facade", "create"])
    try:
        with warnings.catch_warnings():
            warnings.simplefilter("ignore")
            if adaptive:
                if how == "facade":
                    col = physt.collection({"m0": datas[0]}, "fixed_width", bin_width=w, adaptive=True)
                else:
                    col = HistogramCollection(binning=physt.h1(datas[0], "fixed_width", bin_width=w, adaptive=True).binning.copy())
                    col.create("m0", datas[0])
                for i in range(1, k):
                    col.create(f"m{i}", datas[i])
            else:
                allv = np.concatenate(datas)
                lo = math.floor(allv.min() / w) * w
                edges = np.arange(lo, allv.max() + 2 * w, w)
                col = physt.collection({f"m{i}": d_ for i, d_ in enumerate(datas)}, edges) if how == "facade" else HistogramCollection(binning=physt.h1(allv, edges).binning.copy())
                if how == "create":
                    for i in range(k):
                        col.create(f"m{i}", datas[i])
            total = col.sum()
    except Exception as e:
        rec.fail(monitor="C05.partition.equiv", op=f"collection.sum/{how}", symptom=f"creating members / summing a collection raised {type(e).__name__}", diff=["raised"],
                 detail={"adaptive": adaptive, "members": [d_.tolist() for d_ in datas], "error": str(e)[:200]})
        return
    with attach.quiet():
        for i, (m, d_) in enumerate(zip(col.histograms, datas)):
            probs = snap.wellformed_problems(m)
            mb = np.asarray(m.bins, dtype=float)
            mm = model.bin_1d(mb, d_, None, last_closed=not adaptive)
            if probs or not np.array_equal(np.asarray(m.frequencies, dtype=float), model.frac_array(mm.freq)):
                rec.fail(monitor="C05.partition.equiv", op=f"collection.create/{how}", symptom="a member of the collection is no longer the histogram of its own values (or ill-formed)", diff=["frequencies"],
                         detail={"member": i, "problems": probs[:3], "adaptive": adaptive, "got": np.asarray(m.frequencies).tolist(), "bins": [mb[0].tolist(), mb[-1].tolist()] if len(mb) else []})
                break
        tb = np.asarray(total.bins, dtype=float)
        tm = model.bin_1d(tb, np.concatenate(datas), None, last_closed=not adaptive)
        if not np.array_equal(np.asarray(total.frequencies, dtype=float), model.frac_array(tm.freq)) or float(total.total) != sum(len(d_) for d_ in datas):
            rec.fail(monitor="C05.partition.equiv", op=f"collection.sum/{how}", symptom="sum() over the collection is not the histogram of all members' values", diff=["frequencies"],
                     detail={"adaptive": adaptive, "got": np.asarray(total.frequencies).tolist(), "expected": model.frac_array(tm.freq).tolist(), "members": [d_.tolist() for d_ in datas]})
    rec.case(["collection_sum", adaptive, how, [d_.tolist() for d_ in datas]], k >= 2, cls=f"collection_sum/{'adaptive' if adaptive else 'fixed'}/{how}")


def case_from_arrays(ctx, index, rng: random.Random):
    """Operands built directly from arrays of contents (the constructor keeps the arrays it is given): one array serving as
    contents and as squared errors, or as the contents of both operands. Sums and += are still element-wise sums of what
    the operands held, and the other operand stays what it was."""
    import physt
    from physt.histogram1d import Histogram1D
    from physt.histogram_nd import Histogram2D

    rec = ctx.rec
    rec.mon("C05.add.post")
    d = rng.choice([1, 1, 2])
    shape = [rng.randint(1, 6) for _ in range(d)]
    edges = [np.array(gen.edges(rng, n)) for n in shape]
    dt = rng.choice([np.int64, np.float64, np.int32])
    c1 = np.array([rng.randint(0, 9) for _ in range(int(np.prod(shape)))], dtype=dt).reshape(shape)
    c2 = np.array([rng.randint(0, 9) for _ in range(int(np.prod(shape)))], dtype=dt).reshape(shape)
    sharing = rng.choice(["errors_is_contents", "same_array_twice", "none"])
    orig1, orig2 = c1.copy(), c2.copy()

    def make(f, **kw):
        return Histogram1D(edges[0].copy(), f, **kw) if d == 1 else Histogram2D([e.copy() for e in edges], f, **kw)

    try:
        with warnings.catch_warnings():
            warnings.simplefilter("ignore")
            if sharing == "errors_is_contents":
                a, b = make(c1, errors2=c1), make(c2)
            elif sharing == "same_array_twice":
                a, b = make(c1), make(c1)
                orig2 = orig1
            else:
                a, b = make(c1), make(c2)
            how = rng.choice(["iadd", "add", "radd", "sum"])
            if how == "iadd":
                a += b
                r = a
            elif how == "add":
                r = a + b
            elif how == "radd":
                r = b + a
            else:
                r = sum([a, b])
    except Exception as e:
        rec.fail(monitor="C05.add.post", op=f"from_arrays/{sharing}", symptom=f"adding histograms built from arrays raised {type(e).__name__}", diff=["raised"], detail={"error": str(e)[:200]})
        return
    with attach.quiet():
        exp = orig1.astype(float) + orig2.astype(float)
        if not (np.array_equal(np.asarray(r.frequencies, dtype=float), exp) and np.array_equal(np.asarray(r.errors2, dtype=float), exp)):
            rec.fail(monitor="C05.add.post", op=f"{how}/{sharing}", symptom="contents / squared errors of a sum are not the element-wise sums of what the operands held", diff=["frequencies", "errors2"],
                     detail={"got": np.asarray(r.frequencies).ravel()[:8], "got_errors2": np.asarray(r.errors2).ravel()[:8], "expected": exp.ravel()[:8]})
        if not (np.array_equal(np.asarray(b.frequencies, dtype=float), orig2.astype(float)) and np.array_equal(np.asarray(b.errors2, dtype=float), orig2.astype(float))):
            rec.fail(monitor="C05.add.post", op=f"{how}/{sharing}", symptom="the other operand was modified by an addition", diff=["operand"],
                     detail={"got": np.asarray(b.frequencies).ravel()[:8], "expected": orig2.ravel()[:8]})
        if how != "iadd" and not np.array_equal(np.asarray(a.frequencies, dtype=float), orig1.astype(float)):
            rec.fail(monitor="C05.add.post", op=f"{how}/{sharing}", symptom="an operand was modified by a copying addition", diff=["operand"], detail={})
    rec.case([shape, c1.ravel().tolist(), c2.ravel().tolist(), sharing, how], sharing != "none" and float(exp.sum()) > 0, cls=f"from_arrays/{sharing}/{how}")


def case_untracked(ctx, index, rng: random.Random):
    """One operand was made without tracking of its missed values (keep_missed=False, or a mask / index-array selection): the sum cannot
    know what was missed either - in whichever order the operands come, it does not report a known underflow / overflow."""
    import physt

    rec = ctx.rec
    rec.mon("C05.partition.equiv")
    e = gen.edges(rng, rng.randint(2, 6))
    pairs = gen.pairs_from_edges(e)
    width = e[-1] - e[0]

    def data(n):
        return np.asarray(gen.data_for_bins(rng, pairs, n) + [e[0] - rng.uniform(0.1, 1) * width for _ in range(rng.randint(1, 4))] + [e[-1] + rng.uniform(0.1, 1) * width for _ in range(rng.randint(1, 4))])

    a = physt.h1(data(rng.randint(0, 20)), np.array(e))
    how_b = rng.choice(["keep_missed=False", "keep_missed=False", "mask"])
    if how_b == "mask":
        b = physt.h1(data(rng.randint(0, 20)), np.array(e))[np.ones(len(pairs), dtype=bool)]
    else:
        b = physt.h1(data(rng.randint(0, 20)), np.array(e), keep_missed=False)
    results = {}
    try:
        with warnings.catch_warnings():
            warnings.simplefilter("ignore")
            results["a+b"] = a + b
            results["b+a"] = b + a
            c = a.copy()
            c += b
            results["a+=b"] = c
            c = b.copy()
            c += a
            results["b+=a"] = c
            results["sum[a,b]"] = sum([a, b])
            results["sum[b,a]"] = sum([b, a])
    except Exception as ex:
        rec.fail(monitor="C05.partition.equiv", op="add/untracked", symptom=f"adding histograms over equal bins raised {type(ex).__name__}", diff=["raised"], detail={"error": str(ex)[:160], "b": how_b})
        return
    with attach.quiet():
        want = np.asarray(a.frequencies) + np.asarray(b.frequencies)
        views = {}
        for k, r in results.items():
            under, over = float(r.underflow), float(r.overflow)
            views[k] = (bool(r.keep_missed), "nan" if math.isnan(under) else under, "nan" if math.isnan(over) else over)
            if not np.array_equal(np.asarray(r.frequencies), want):
                rec.fail(monitor="C05.partition.equiv", op=k, symptom="contents of the sum are not the sums of the contents", diff=["frequencies"], detail={"b": how_b})
            if views[k][1] != "nan" or views[k][2] != "nan":
                rec.fail(monitor="C05.partition.equiv", op=k, symptom="an operand that does not keep its missed values was added, yet the result reports a known underflow / overflow",
                         diff=["underflow", "overflow", "keep_missed"], detail={"b": how_b, "result": views[k], "a_missed": [float(a.underflow), float(a.overflow)], "edges": e})
        if len(set(views.values())) > 1:
            rec.fail(monitor="C05.partition.equiv", op="a+b vs b+a", symptom="two summation orders give different histograms", diff=["underflow", "overflow", "keep_missed"], detail={"b": how_b, "views": {k: list(v) for k, v in views.items()}})
    rec.case(["untracked", e, how_b, np.asarray(a.frequencies).tolist(), np.asarray(b.frequencies).tolist()], True, cls=f"untracked/{how_b}")


def case_untracked_adaptive(ctx, index, rng: random.Random):
    """An adaptive histogram plus one on the same grid (other bins) that dropped values outside its bins without counting them
    (keep_missed=False): the sum cannot report as a known fact that nothing was missed."""
    import physt

    rec = ctx.rec
    rec.mon("C05.partition.equiv")
    w = float(rng.choice([1.0, 0.5, 2.0]))
    a_data = np.asarray([rng.uniform(0, 4 * w) for _ in range(rng.randint(1, 8))])
    lo = float(rng.choice([6, 8, -10])) * w
    nb = rng.randint(2, 4)
    b_edges = lo + w * np.arange(nb + 1)
    b_in = [float(rng.uniform(lo + 0.01, lo + nb * w - 0.01)) for _ in range(rng.randint(1, 6))]
    dropped = [lo - 2.5 * w] * rng.randint(0, 2) + [lo + (nb + 2.5) * w] * rng.randint(0, 2)
    a = physt.h1(a_data, "fixed_width", bin_width=w, adaptive=True)
    # (a fixed-width binning of its own: bins given as an array cannot be extended)
    b = physt.h1(np.asarray(b_in + dropped), "fixed_width", bin_width=w, range=(float(b_edges[0]), float(b_edges[-1])), keep_missed=False)
    order = rng.choice(["a+b", "a+=b", "sum"])
    try:
        with warnings.catch_warnings():
            warnings.simplefilter("ignore")
            if order == "a+b":
                r = a + b
            elif order == "a+=b":
                r = a.copy()
                r += b
            else:
                r = sum([a, b])
    except Exception as ex:
        rec.skip("C05.partition.equiv", f"untracked_adaptive_refused/{type(ex).__name__}")
        rec.case(["untracked_adaptive", "refused", order], False, cls="untracked_adaptive/refused")
        return
    with attach.quiet():
        under, over = float(r.underflow), float(r.overflow)
        total = float(np.sum(r.frequencies))
        if total != len(a_data) + len(b_in):
            rec.fail(monitor="C05.partition.equiv", op=order, symptom="contents of the adaptive sum are not the sums of the contents", diff=["frequencies"], detail={"total": total, "want": len(a_data) + len(b_in)})
        if not (math.isnan(under) and math.isnan(over)):
            rec.fail(monitor="C05.partition.equiv", op=order, symptom="an operand that does not keep its missed values was added, yet the result reports a known underflow / overflow",
                     diff=["underflow", "overflow", "keep_missed"], detail={"adaptive": True, "result": [bool(r.keep_missed), under, over], "dropped": len(dropped), "b_edges": b_edges.tolist()})
    rec.case(["untracked_adaptive", order, w, lo, nb, a_data.tolist(), b_in, len(dropped)], True, cls=f"untracked_adaptive/{order}")


def case_narrow_sum(ctx, index, rng: random.Random):
    """Operands with compact integer contents (int16 / int32) whose sums - of contents, squared errors or missed weights - do not fit
    the type: the sum is exact (the type widens) or the addition is refused as a whole; and a Histogram1D is not added to a one-axis
    HistogramND as if their missed counters meant the same."""
    import physt
    from physt.histogram1d import Histogram1D
    from physt.histogram_nd import Histogram2D

    rec = ctx.rec
    rec.mon("C05.partition.equiv")
    if rng.random() < 0.2:
        edges = np.array([0.0, 1.0, 2.0, 3.0])
        a = physt.h1(np.array([0.5, 1.5, 2.5, 2.6, -1.0, 7.0]), edges)
        b = physt.h(np.array([0.5, 0.6, 1.5, -4.0, -5.0, 9.0, 9.5, 10.0]).reshape(-1, 1), [edges])
        for order, (x, y) in (("1d+nd", (a, b)), ("nd+1d", (b, a))):
            try:
                with warnings.catch_warnings():
                    warnings.simplefilter("ignore")
                    r = x + y
            except (ValueError, TypeError):
                continue
            with attach.quiet():
                want = float(a.missed) + float(b.missed)
                if float(r.missed) != want or not np.array_equal(np.asarray(r.frequencies).ravel(), np.asarray(a.frequencies) + np.asarray(b.frequencies).ravel()):
                    rec.fail(monitor="C05.partition.equiv", op=order, symptom="a Histogram1D and a one-axis HistogramND were added with their missed counters mixed up", diff=["missed"],
                             detail={"missed": float(r.missed), "expected": want})
        rec.case(["1d_plus_nd1"], True, cls="narrow_sum/1d_plus_nd1")
        return
    dt = rng.choice(["int16", "int32"])
    top = int(np.iinfo(dt).max)
    d = rng.choice([1, 1, 2])
    which = rng.choice(["missed", "missed", "contents", "errors2"])
    big = top // 2 + rng.randint(1, 100)
    try:
        if d == 1:
            ed = np.array([0.0, 1.0, 2.0])
            kw = {"underflow": big} if which == "missed" else {}
            fa = np.array([big if which == "contents" else 5, 3], dtype=dt)
            ea = np.array([big if which == "errors2" else 5, 3], dtype=dt)
            a = Histogram1D(ed, fa, errors2=ea, **kw)
            b = Histogram1D(ed, fa.copy(), errors2=ea.copy(), **kw)
        else:
            ed = [np.array([0.0, 1.0, 2.0]), np.array([0.0, 1.0])]
            kw = {"missed": big} if which == "missed" else {}
            fa = np.array([[big if which == "contents" else 5], [3]], dtype=dt)
            ea = np.array([[big if which == "errors2" else 5], [3]], dtype=dt)
            a = Histogram2D(ed, fa, errors2=ea, **kw)
            b = Histogram2D(ed, fa.copy(), errors2=ea.copy(), **kw)
    except Exception as ex:
        rec.monitor_error("C05.case_narrow_sum.make", ex)
        return
    form = rng.choice(["a+b", "a+=b", "sum", "a-b", "a-=b"]) if which == "errors2" else rng.choice(["a+b", "a+=b", "sum"])
    if form in ("a-b", "a-=b"):
        # the difference of equal-bin operands: contents b <= a everywhere, the squared errors *add* - and their sum is what outgrows the type
        try:
            b = (Histogram1D(ed, (fa // 2).astype(dt), errors2=ea.copy()) if d == 1 else Histogram2D(ed, (fa // 2).astype(dt), errors2=ea.copy()))
        except Exception as ex:
            rec.monitor_error("C05.case_narrow_sum.make", ex)
            return
        with attach.quiet():
            s0 = snap.snapshot(a)
        raised = None
        try:
            with warnings.catch_warnings():
                warnings.simplefilter("ignore")
                if form == "a-b":
                    r = a - b
                else:
                    r = a
                    r -= b
        except Exception as ex:
            raised = ex
        with attach.quiet():
            if raised is not None:
                dd = snap.diff(s0, snap.snapshot(a), ignore=("dtype",))
                if dd:
                    rec.fail(monitor="C05.partition.equiv", op=form, symptom=f"a refused subtraction ({type(raised).__name__}) left the minuend half changed", diff=sorted(dd), detail={"dtype": dt, "dim": d})
                else:
                    rec.fail(monitor="C05.add.refusal", op=form, symptom=f"histograms with equal bins (b <= a in every bin) were refused: {type(raised).__name__}", diff=["raised"], detail={"dtype": dt, "error": str(raised)[:120]})
            else:
                e_ = np.asarray(r.errors2).ravel()
                f_ = np.asarray(r.frequencies).ravel()
                if int(e_[0]) != 2 * int(ea.ravel()[0]) or int(f_[0]) != int(fa.ravel()[0]) - int(fa.ravel()[0]) // 2:
                    rec.fail(monitor="C05.partition.equiv", op=form, symptom="difference of compact integer operands: squared errors wrapped around instead of widening the content type", diff=["errors2"],
                             detail={"dtype": dt, "after": str(r.dtype), "errors2": int(e_[0]), "expected": 2 * int(ea.ravel()[0])})
        rec.case(["narrow_sum", dt, d, which, form], True, cls=f"narrow_sum/{dt}/{d}d/{which}/{form}/{'refused' if raised is not None else 'accepted'}")
        return
    with attach.quiet():
        s0 = snap.snapshot(a)
    raised = None
    try:
        with warnings.catch_warnings():
            warnings.simplefilter("ignore")
            if form == "a+b":
                r = a + b
            elif form == "a+=b":
                r = a
                r += b
            else:
                r = sum([a, b, b.copy()])
    except Exception as ex:
        raised = ex
    k = 3 if form == "sum" else 2
    with attach.quiet():
        if raised is not None:
            if form == "a+=b":
                dd = snap.diff(s0, snap.snapshot(a), ignore=("dtype",))
                if dd:
                    rec.fail(prop="C18", monitor="C05.partition.equiv", op=form, symptom=f"a refused += ({type(raised).__name__}) left the target half added", diff=sorted(dd), detail={"dtype": dt, "which": which})
                    rec.fail(monitor="C05.partition.equiv", op=form, symptom=f"a refused += ({type(raised).__name__}) left the target half added", diff=sorted(dd), detail={"dtype": dt, "which": which})
        else:
            f = np.asarray(r.frequencies).ravel()
            e = np.asarray(r.errors2).ravel()
            m = float(r.underflow) if d == 1 else float(r.missed)
            want_f = k * int(fa.ravel()[0])
            want_e = k * int(ea.ravel()[0])
            want_m = k * big if which == "missed" else 0
            if int(f[0]) != want_f or int(e[0]) != want_e or m != want_m:
                rec.fail(monitor="C05.partition.equiv", op=form, symptom="sums of compact integer operands wrapped around instead of widening the content type (or being refused)", diff=["frequencies", "errors2", "missed"],
                         detail={"dtype": dt, "after": str(r.dtype), "which": which, "got": [int(f[0]), int(e[0]), m], "expected": [want_f, want_e, want_m], "dim": d})
    rec.case(["narrow_sum", dt, d, which, form], True, cls=f"narrow_sum/{dt}/{d}d/{which}/{form}/{'refused' if raised is not None else 'accepted'}")


def run(ctx):
    attach_monitors()
    ctx.run_cases(ctx.scale(80, 400), case_narrow_sum, salt="narrowsum")
    ctx.run_cases(ctx.scale(60, 400), case_untracked, salt="untracked")
    ctx.run_cases(ctx.scale(60, 400), case_from_arrays, salt="arrays")
    ctx.run_cases(ctx.scale(60, 400), case_adaptive_missed, salt="admissed")
    ctx.run_cases(ctx.scale(60, 400), case_collection_sum, salt="colsum")
    ctx.run_cases(ctx.scale(60, 300), case_untracked_adaptive, salt="untracked_adaptive")
    ctx.run_cases(ctx.scale(300, 2500), case_static, salt="static")
    ctx.run_cases(ctx.scale(300, 2500), case_adaptive, salt="adaptive")
    ctx.run_cases(ctx.scale(80, 400), case_refusal, salt="refusal")
    ctx.run_cases(ctx.scale(15, 120), case_dask, salt="dask")
