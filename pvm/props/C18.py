"""C18 - histograms stay well-formed; failed operations change nothing (world monitor + fault injection)."""
from __future__ import annotations

import random

from .. import attach, core
from ..world import World, attach_world
from ..worldload import History

DECIDING_MONITORS = ["C18.world.wellformed", "C18.world.atomicity", "C18.fault.refusal"]
PASSIVE_UNDER_TESTS = True
RULE = ("random histories (as C12) in which invalid calls are injected at every position: incompatible / other-dimension / non-histogram / "
        "array operands, negative factors, histogram*histogram, over-subtraction, wrong weight shapes and column counts, invalid and lossy "
        "dtypes, bad weights, merge amounts, axes and indices; after every public call shapes / signs are checked on every object touched, "
        "after every raise the target's contents per interval, errors2 and missed values must be unchanged; non-trivial = history with "
        ">= 2 injected faults that raised on a target holding content; distinct by hash of the operation log")
ASSUMPTIONS = [
    "negative weights, free-arithmetics mode and zero divisors are outside the statement and not injected",
    "a lossless dtype promotion and zero-content bin growth before the raise are allowed (statement)",
]

WEIGHTS = {"create": 1.0, "derive": 2.0, "mutate": 4.0, "fault": 4.0}


def one_history(ctx, index: int, rng: random.Random):
    world = ctx.world
    world.clear()
    h = History(ctx, rng, world, profile="C18")
    h.run(rng.randint(8, 30 if ctx.quick else 60), WEIGHTS)
    st = h.stats
    ctx.rec.case(h.log, st["faults_raised"] >= 2 and st["mutations"] >= 1, cls=f"faults{min(st['faults_raised'], 6)}",
                 sample={"log": h.log[:25], "stats": st})
    for k, v in st.items():
        ctx.rec.notes.setdefault("history_stats", {})
        ctx.rec.notes["history_stats"][k] = ctx.rec.notes["history_stats"].get(k, 0) + v


def attach_monitors(ctx):
    ctx.world = World(passive=False)
    attach_world(ctx.world)


def attach_passive():
    """Under the repository's tests: world monitor with automatic registration of every histogram created;
    bystander changes are reported only between objects related by derivation."""
    from ..world import World, attach_world, register_all_new

    w = World(passive=True, max_population=10)
    attach_world(w)
    register_all_new(w)


def run(ctx):
    attach_monitors(ctx)
    ctx.run_cases(ctx.scale(350, 3000), one_history)
