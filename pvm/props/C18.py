"""C18 - histograms stay well-formed; failed operations change nothing (world monitor + fault injection)."""
from __future__ import annotations

import random
import warnings

from .. import attach, core
from ..world import World, attach_world
from ..worldload import History

DECIDING_MONITORS = ["C18.world.wellformed", "C18.world.atomicity", "C18.fault.refusal"]
PASSIVE_UNDER_TESTS = True
RULE = ("random histories (as C12) in which invalid calls are injected at every position: incompatible / other-dimension / non-histogram / "
        "array operands, negative factors, histogram*histogram, over-subtraction, wrong weight shapes and column counts, invalid and lossy "
        "dtypes, bad weights, merge amounts, axes and indices; after every public call shapes / signs are checked on every object touched, "
        "after every raise the target's contents per interval, errors2 and missed values must be unchanged; non-trivial = history with "
        ">= 2 injected faults that raised on a target holding content; distinct by hash of the operation log `C13.narrow_count_case` also runs here (a fill_n that raises has booked nothing); `negative_counter_case`: fill_n on a histogram whose missed counter was left negative by free arithmetics; collections: normalize_all with a member that cannot be normalised; world faults include set_adaptive on right-closed bins and an adaptive ND addend of another width on the last axis.")
ASSUMPTIONS = [
    "negative weights are outside the statement and not injected; zero divisors, weights whose square overflows, and blocks of free arithmetics left by an exception are",
    "a lossless dtype promotion and zero-content bin growth before the raise are allowed (statement)",
]

WEIGHTS = {"create": 1.0, "derive": 2.0, "mutate": 4.0, "fault": 4.0}


def one_history(ctx, index: int, rng: random.Random):
    world = ctx.world
    world.clear()
    h = History(ctx, rng, world, profile="C18")
    h.run(rng.randint(8, 30 if ctx.quick else 60), WEIGHTS)
    st = h.stats
    ctx.rec.case(h.log, st["faults_raised"] >= 2 and st["mutations"] >= 1, cls=f"faults{min(st['faults_raised'], 6)}",
                 sample={"log": h.log[:25], "stats": st})
    for k, v in st.items():
        ctx.rec.notes.setdefault("history_stats", {})
        ctx.rec.notes["history_stats"][k] = ctx.rec.notes["history_stats"].get(k, 0) + v


def collection_case(ctx, index: int, rng: random.Random):
    """HistogramCollection constructor / add refuse differing binnings and stay unchanged."""
    import numpy as np
    import physt
    from physt.histogram_collection import HistogramCollection
    from .. import gen, snapshot as snap

    rec = ctx.rec
    rec.mon("C18.fault.refusal")
    e = gen.edges(rng, rng.randint(1, 6))
    pairs = gen.pairs_from_edges(e)
    a = physt.h1(np.asarray(gen.data_for_bins(rng, pairs, 8)), np.array(e), name="a")
    b = physt.h1(np.asarray(gen.data_for_bins(rng, pairs, 8)), np.array(e), name="b")
    other_edges = np.linspace(e[0] - 2.2, e[-1] + 1.1, len(e) + 2)
    c = physt.h1([float(other_edges[1])], other_edges, name="c")
    which = rng.choice(["ctor", "add", "ctor_binning_and_hists", "normalize_all_empty_member", "normalize_all_empty_member"])
    raised = False
    col = HistogramCollection(a, b)
    if which == "normalize_all_empty_member":
        # a member without a single entry inside the bins (not the first one) cannot be normalised: a call that raises for it has
        # normalised nobody
        members = [a, b, physt.h1([e[-1] + 5.0], np.array(e), name="empty")]
        rng.shuffle(members)
        if members[0].name == "empty":
            members = members[1:] + members[:1]
        col = HistogramCollection(*members)
        with attach.quiet():
            before = [snap.snapshot(x) for x in col.histograms]
        err = None
        try:
            with warnings.catch_warnings():
                warnings.simplefilter("ignore")
                with np.errstate(all="ignore"):
                    col.normalize_all(inplace=True)
        except Exception as ex:
            err = ex
        rec.mon("C18.world.atomicity")
        with attach.quiet():
            after = [snap.snapshot(x) for x in col.histograms]
            changed = [x["name"] for x, y in zip(before, after) if snap.diff(x, y, ignore=("dtype",))]
            if err is not None and changed:
                rec.fail(monitor="C18.world.atomicity", op="collection.normalize_all", symptom=f"operation raised {type(err).__name__} but members of the collection were changed", diff=["members"],
                         detail={"changed": changed, "order": [x["name"] for x in before], "error": str(err)[:120]})
        rec.case(["collection", which, e, [x["name"] for x in before]], True, cls=f"collection/{which}/{'raised' if err is not None else 'accepted'}")
        return
    with attach.quiet():
        before = [snap.snapshot(x) for x in col.histograms]
    try:
        if which == "ctor":
            HistogramCollection(a, c)
        elif which == "add":
            col.add(c)
        else:
            HistogramCollection(a, binning=a.binning)
    except Exception:
        raised = True
    if not raised:
        rec.fail(monitor="C18.fault.refusal", op=f"collection/{which}", symptom="collection accepted a histogram with different binning / contradictory arguments", diff=["not_refused"], detail={})
    with attach.quiet():
        if len(col.histograms) != 2 or any(snap.diff(x, snap.snapshot(y)) for x, y in zip(before, col.histograms)):
            rec.fail(monitor="C18.fault.refusal", op=f"collection/{which}", symptom="a refused collection operation changed the collection", diff=["members"], detail={})
    rec.case(["collection", which, e], True, cls=f"collection/{which}")


def negative_counter_case(ctx, index: int, rng: random.Random):
    """A histogram whose under/overflow counter was left negative by a subtraction under free arithmetics, free arithmetics off again:
    a fill_n that raises has booked nothing; one that is accepted has booked every value exactly once."""
    import numpy as np
    import physt
    from physt.config import config
    from .. import snapshot as snap

    rec = ctx.rec
    rec.mon("C18.world.atomicity")
    nd = rng.random() < 0.3
    n = rng.randint(2, 6)
    lo = float(rng.choice([0.0, -3.0, 10.0]))
    e = np.linspace(lo, lo + n, n + 1)
    inside = lambda k: [float(rng.uniform(lo + 0.01, lo + n - 0.01)) for _ in range(k)]
    below = lambda k: [lo - 1.0 - rng.random() for _ in range(k)]
    above = lambda k: [lo + n + 1.0 + rng.random() for _ in range(k)]
    if nd:
        mk = lambda xs: physt.h2(np.array(xs), np.array(xs), [e, e])
    else:
        mk = lambda xs: physt.h1(np.array(xs), e)
    a_inside = inside(rng.randint(3, 8))
    a = mk(a_inside + above(rng.randint(0, 1)))
    # (the bins themselves stay non-negative: only the counters outside go below zero)
    b = mk(a_inside[:rng.randint(0, 2)] + above(rng.randint(2, 4)) + below(rng.randint(0, 2)))
    with warnings.catch_warnings():
        warnings.simplefilter("ignore")
        with config.enable_free_arithmetics():
            d = a + b * (-1) if rng.random() < 0.5 else a - b
    new = rng.choice([inside(3), inside(2) + below(1), inside(1) + above(2), below(1) + above(1), above(4)])
    weights = rng.choice([None, None, [float(rng.choice([0.5, 2.0, 1.5])) for _ in new]])
    with attach.quiet():
        before = snap.snapshot(d, with_stats=False)
    err = None
    try:
        with warnings.catch_warnings():
            warnings.simplefilter("ignore")
            if nd:
                d.fill_n(np.array([new, new]).T, weights=weights)
            else:
                d.fill_n(new, weights=weights)
    except Exception as ex:
        err = ex
    with attach.quiet():
        after = snap.snapshot(d, with_stats=False)
        # (a lossless promotion of the content type before the raise is allowed by the statement)
        changed = sorted(k for k in snap.diff(before, after, ignore=("dtype",))
                         if not (k in ("frequencies", "errors2") and snap.values_equal_numeric(before[k], after[k])))
    if err is not None and changed:
        rec.fail(monitor="C18.world.atomicity", op="fill_n.negative_counter", symptom=f"fill_n raised {type(err).__name__} but the histogram was changed",
                 diff=changed, detail={"nd": nd, "new": new, "weights": weights, "error": str(err)[:100], "before": {k: before[k] for k in changed}, "after": {k: after[k] for k in changed}})
    if err is None:
        w = weights or [1.0] * len(new)
        want = sum(w)
        got = float(np.sum(d.frequencies) - np.sum(snap.arr_values(before["frequencies"]))) + float(np.nansum(d.missed) - before.get("missed_total", 0.0) if not nd else d.missed - before["missed"])
        if abs(got - want) > 1e-9:
            rec.fail(monitor="C18.world.atomicity", op="fill_n.negative_counter", symptom="an accepted fill_n did not book every value exactly once", diff=["total"], detail={"want": want, "got": got, "nd": nd})
    rec.case(["negcounter", nd, e.tolist(), new, weights, before["frequencies"]], True, cls=f"negative_counter/{'nd' if nd else '1d'}/{'raised' if err is not None else 'accepted'}")


def attach_monitors(ctx):
    ctx.world = World(passive=False)
    attach_world(ctx.world)


def attach_passive():
    """Under the repository's tests: world monitor with automatic registration of every histogram created;
    bystander changes are reported only between objects related by derivation."""
    from ..world import World, attach_world, register_all_new

    w = World(passive=True, max_population=10)
    attach_world(w)
    register_all_new(w)


def run(ctx):
    attach_monitors(ctx)
    ctx.run_cases(ctx.scale(350, 3000), one_history)
    ctx.run_cases(ctx.scale(40, 200), collection_case, salt="collection")
    ctx.run_cases(ctx.scale(80, 400), negative_counter_case, salt="negcounter")
    # counting into compact integer types close to their top: a fill_n that raises has booked nothing (judged here), one that
    # succeeds has the exact counts (judged by C13, where the same workload runs)
    from . import C13

    ctx.run_cases(ctx.scale(120, 600), C13.narrow_count_case, salt="narrow")
