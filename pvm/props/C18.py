"""C18 - histograms stay well-formed; failed operations change nothing (world monitor + fault injection)."""
from __future__ import annotations

import random
import warnings

from .. import attach, core
from ..world import World, attach_world
from ..worldload import History

DECIDING_MONITORS = ["C18.world.wellformed", "C18.world.atomicity", "C18.fault.refusal"]
PASSIVE_UNDER_TESTS = True
RULE = ("random histories (as C12) in which invalid calls are injected at every position: incompatible / other-dimension / non-histogram / "
        "array operands, negative factors, histogram*histogram, over-subtraction, wrong weight shapes and column counts, invalid and lossy "
        "dtypes, bad weights, merge amounts, axes and indices; after every public call shapes / signs are checked on every object touched, "
        "after every raise the target's contents per interval, errors2 and missed values must be unchanged; non-trivial = history with "
        ">= 2 injected faults that raised on a target holding content; distinct by hash of the operation log `C13.narrow_count_case` also runs here (a fill_n that raises has booked nothing); collections: normalize_all with a member that cannot be normalised; world faults include set_adaptive on right-closed bins and an adaptive ND addend of another width on the last axis.")
ASSUMPTIONS = [
    "negative weights are outside the statement and not injected; zero divisors, weights whose square overflows, and blocks of free arithmetics left by an exception are",
    "a lossless dtype promotion and zero-content bin growth before the raise are allowed (statement)",
]

WEIGHTS = {"create": 1.0, "derive": 2.0, "mutate": 4.0, "fault": 4.0}


def one_history(ctx, index: int, rng: random.Random):
    world = ctx.world
    world.clear()
    h = History(ctx, rng, world, profile="C18")
    h.run(rng.randint(8, 30 if ctx.quick else 60), WEIGHTS)
    st = h.stats
    ctx.rec.case(h.log, st["faults_raised"] >= 2 and st["mutations"] >= 1, cls=f"faults{min(st['faults_raised'], 6)}",
                 sample={"log": h.log[:25], "stats": st})
    for k, v in st.items():
        ctx.rec.notes.setdefault("history_stats", {})
        ctx.rec.notes["history_stats"][k] = ctx.rec.notes["history_stats"].get(k, 0) + v


def collection_case(ctx, index: int, rng: random.Random):
    """HistogramCollection constructor / add refuse differing binnings and stay unchanged."""
    import numpy as np
    import physt
    from physt.histogram_collection import HistogramCollection
    from .. import gen, snapshot as snap

    rec = ctx.rec
    rec.mon("C18.fault.refusal")
    e = gen.edges(rng, rng.randint(1, 6))
    pairs = gen.pairs_from_edges(e)
    a = physt.h1(np.asarray(gen.data_for_bins(rng, pairs, 8)), np.array(e), name="a")
    b = physt.h1(np.asarray(gen.data_for_bins(rng, pairs, 8)), np.array(e), name="b")
    other_edges = np.linspace(e[0] - 2.2, e[-1] + 1.1, len(e) + 2)
    c = physt.h1([float(other_edges[1])], other_edges, name="c")
    which = rng.choice(["ctor", "add", "ctor_binning_and_hists", "normalize_all_empty_member", "normalize_all_empty_member"])
    raised = False
    col = HistogramCollection(a, b)
    if which == "normalize_all_empty_member":
        # a member without a single entry inside the bins (not the first one) cannot be normalised: a call that raises for it has
        # normalised nobody
        members = [a, b, physt.h1([e[-1] + 5.0], np.array(e), name="empty")]
        rng.shuffle(members)
        if members[0].name == "empty":
            members = members[1:] + members[:1]
        col = HistogramCollection(*members)
        with attach.quiet():
            before = [snap.snapshot(x) for x in col.histograms]
        err = None
        try:
            with warnings.catch_warnings():
                warnings.simplefilter("ignore")
                with np.errstate(all="ignore"):
                    col.normalize_all(inplace=True)
        except Exception as ex:
            err = ex
        rec.mon("C18.world.atomicity")
        with attach.quiet():
            after = [snap.snapshot(x) for x in col.histograms]
            changed = [x["name"] for x, y in zip(before, after) if snap.diff(x, y, ignore=("dtype",))]
            if err is not None and changed:
                rec.fail(monitor="C18.world.atomicity", op="collection.normalize_all", symptom=f"operation raised {type(err).__name__} but members of the collection were changed", diff=["members"],
                         detail={"changed": changed, "order": [x["name"] for x in before], "error": str(err)[:120]})
        rec.case(["collection", which, e, [x["name"] for x in before]], True, cls=f"collection/{which}/{'raised' if err is not None else 'accepted'}")
        return
    with attach.quiet():
        before = [snap.snapshot(x) for x in col.histograms]
    try:
        if which == "ctor":
            HistogramCollection(a, c)
        elif which == "add":
            col.add(c)
        else:
            HistogramCollection(a, binning=a.binning)
    except Exception:
        raised = True
    if not raised:
        rec.fail(monitor="C18.fault.refusal", op=f"collection/{which}", symptom="collection accepted a histogram with different binning / contradictory arguments", diff=["not_refused"], detail={})
    with attach.quiet():
        if len(col.histograms) != 2 or any(snap.diff(x, snap.snapshot(y)) for x, y in zip(before, col.histograms)):
            rec.fail(monitor="C18.fault.refusal", op=f"collection/{which}", symptom="a refused collection operation changed the collection", diff=["members"], detail={})
    rec.case(["collection", which, e], True, cls=f"collection/{which}")


def attach_monitors(ctx):
    ctx.world = World(passive=False)
    attach_world(ctx.world)


def attach_passive():
    """Under the repository's tests: world monitor with automatic registration of every histogram created;
    bystander changes are reported only between objects related by derivation."""
    from ..world import World, attach_world, register_all_new

    w = World(passive=True, max_population=10)
    attach_world(w)
    register_all_new(w)


def run(ctx):
    attach_monitors(ctx)
    ctx.run_cases(ctx.scale(350, 3000), one_history)
    ctx.run_cases(ctx.scale(40, 200), collection_case, salt="collection")
    # counting into compact integer types close to their top: a fill_n that raises has booked nothing (judged here), one that
    # succeeds has the exact counts (judged by C13, where the same workload runs)
    from . import C13

    ctx.run_cases(ctx.scale(120, 600), C13.narrow_count_case, salt="narrow")
