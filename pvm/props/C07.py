"""C07 - every binning schema is well-formed, covers its data and obeys its rule."""
from __future__ import annotations

import math
import random
import warnings

import numpy as np

from .. import attach, core, gen
from ..monitors import binning as mb

DECIDING_MONITORS = ["C07.audit", "C07.rule", "C07.refusal"]
PASSIVE_UNDER_TESTS = False
RULE = ("data over 14 orders of magnitude and offsets (uniform, normal, integer-valued, clustered, decimal literals) x binning specifications: "
        "int bin counts 1..200, range, numpy, fixed_width (width, range, align / bin_shift), pretty (bin_count, range), integer, quantile "
        "(bin_count, q, qrange), exponential, explicit edges / pairs / gapped pairs, bin-count rules sturges / sqrt / rice / doane (also with "
        "range), reached through h1, calculate_1d_bins and the factories; every resulting binning is audited (pair / edge / masked-edge forms, "
        "counts, first/last edge, is_consecutive, is_regular, copy, ==, slicing, as_static - also after numpy_bins was read) and checked against its "
        "rule (numpy.histogram_bin_edges, textbook bin-count formulas, equal widths on the grid, pretty family and nearness, half-integers, "
        "textbook quantiles, geometric edges) and coverage of the data; invalid edge arrays must be refused; non-trivial = >= 2 bins from data "
        "with offset or non-unit scale; distinct by hash of (data, specification)")
ASSUMPTIONS = [
    "numpy.histogram_bin_edges is the reference for numpy-style arguments (named as such by the statement)",
    "equal-width / grid checks in ulps of the edge magnitude; pretty width accepted if nearest under the linear or the logarithmic metric",
    "quantile edges compared with the textbook linear-interpolation formula within 1e-12 relative",
]


def gen_data(rng: random.Random, big=False):
    n = rng.choice([2, 3, 5, 10, 33, 100, 400 if not big else 3000])
    scale = 10 ** rng.uniform(-7, 7) if rng.random() < 0.6 else rng.choice([1.0, 0.1, 10.0, 1e-3, 1e3])
    off = rng.choice(gen.OFFSET_POOL) if rng.random() < 0.6 else 0.0
    if abs(off) > 1e7 * scale:
        off = 0.0
    kind = rng.choice(["uniform", "normal", "ints", "cluster", "literal", "skewed"])
    if rng.random() < 0.04:
        # values a few ulps apart: the range cannot be split into distinct edges
        x0 = off + scale
        d = [x0 + i * float(np.spacing(x0)) for i in range(rng.randint(2, 4))]
        if rng.random() < 0.5:
            # ... straddling a power of two, where the spacing of doubles changes
            x0 = rng.choice([1.0, 1024.0, 2.0**-20, 8.0])
            below = [x0]
            for _ in range(rng.randint(1, 12)):
                below.append(float(np.nextafter(below[-1], -np.inf)))
            above = [x0]
            for _ in range(rng.randint(1, 4)):
                above.append(float(np.nextafter(above[-1], np.inf)))
            d = sorted(set(below + above))
            scale, off = x0, 0.0
        return np.array(d, dtype=float), scale, off, "ulps"
    if kind == "uniform":
        d = [off + scale * rng.random() for _ in range(n)]
    elif kind == "normal":
        d = [off + scale * rng.gauss(0, 1) for _ in range(n)]
    elif kind == "ints":
        d = [off + scale * rng.randint(-20, 20) for _ in range(n)]
    elif kind == "cluster":
        d = [off + scale * rng.choice([0.0, 1.0, 1.0, 5.0]) + scale * 1e-3 * rng.random() for _ in range(n)]
    elif kind == "literal":
        d = [off + round(scale * rng.randint(0, 50) / 10, 12) for _ in range(n)]
    else:
        d = [off + scale * rng.expovariate(1.0) for _ in range(n)]
    if len(set(d)) < 2:
        d[0] = d[0] + scale
    return np.array(d, dtype=float), scale, off, kind


def one_case(ctx, index, rng: random.Random):
    import physt
    from physt import binnings, _construction

    rec = ctx.rec
    data, scale, off, dkind = gen_data(rng, big=not ctx.quick)
    mn, mx = float(data.min()), float(data.max())
    spec = rng.choice(["int", "int", "numpy", "fixed_width", "fixed_width", "pretty", "pretty", "integer", "quantile", "exponential",
                       "edges", "gapped", "bincount", "bincount", "none", "int_range", "fixed_width_range", "bincount_range", "pretty_range", "astropy"])
    if dkind == "ulps":
        # a range below the resolution of the data is only meaningful for the numpy-style rules (known finding D16)
        spec = rng.choice(["int", "numpy", "none"])
    via = rng.choice(["h1", "calc", "factory"])
    kw = {}
    bins_arg = None
    desc = {"spec": spec, "via": via, "data_kind": dkind, "n": int(data.size), "scale": scale, "offset": off}
    rng_lo = mn + 0.2 * (mx - mn)
    rng_hi = mn + 0.7 * (mx - mn)
    if spec in ("int", "int_range"):
        bins_arg = rng.choice([1, 2, 3, 7, 10, 25, 64, 200])
        if spec == "int_range":
            kw["range"] = (rng_lo, rng_hi) if rng.random() < 0.7 else (mn - scale, mx + scale)
    elif spec == "numpy":
        bins_arg = "numpy"
        kw["bin_count"] = rng.choice([1, 2, 5, 10, 40])
    elif spec in ("fixed_width", "fixed_width_range"):
        bins_arg = "fixed_width"
        span = mx - mn
        w = span / rng.choice([1, 3, 7, 20, 60]) * rng.choice([1.0, 0.5, 1.37])
        if rng.random() < 0.5:
            w = float(f"{w:.2g}")  # a decimal literal
        w = w if w > 0 else scale
        kw["bin_width"] = w
        if rng.random() < 0.25:
            kw["bin_shift"] = round(w * rng.choice([0.5, 0.25, 0.1]), 12)
        elif rng.random() < 0.15:
            kw["align"] = False
        if spec == "fixed_width_range":
            kw["range"] = (rng_lo, rng_hi)
            kw.pop("align", None)
    elif spec in ("pretty", "pretty_range"):
        bins_arg = "pretty"
        if rng.random() < 0.7:
            kw["bin_count"] = rng.choice([1, 3, 5, 10, 20, 50])
        if spec == "pretty_range":
            kw["range"] = (rng_lo, rng_hi)
    elif spec == "integer":
        bins_arg = "integer"
        data = np.round((data - off) / scale * rng.choice([1, 3, 10])) + round(off) % 1000
        if len(set(data.tolist())) < 2:
            data[0] += 2
        if rng.random() < 0.3:
            data = data + rng.choice([0.25, 0.5, -0.5])
        mn, mx = float(data.min()), float(data.max())
        if rng.random() < 0.2:
            kw["bin_width"] = rng.choice([2, 5])
    elif spec == "quantile":
        bins_arg = "quantile"
        data = np.array(sorted(set(data.tolist())))
        if data.size < 4:
            data = mn + (mx - mn) * np.arange(6) / 5.0
        rng.shuffle(lst := data.tolist())
        data = np.array(lst)
        mode = rng.choice(["count", "q", "qrange"])
        if mode == "count":
            kw["bin_count"] = rng.randint(1, min(6, data.size - 1))
        elif mode == "q":
            qs = sorted(set(round(rng.random(), 3) for _ in range(rng.randint(2, 5))))
            if len(qs) < 2:
                qs = [0.1, 0.9]
            kw["q"] = qs
        else:
            kw["bin_count"] = rng.randint(1, 4)
            kw["qrange"] = (0.1, 0.8)
    elif spec == "exponential":
        bins_arg = "exponential"
        data = np.abs(data - off) + scale * rng.choice([1e-3, 1.0])
        tiny = rng.random() < 0.15
        if tiny:
            # relative range of a few ulps: no room for many rising edges (to be refused, never answered with zero-width bins)
            data = data[0] * (1 + np.arange(data.size) * rng.choice([1e-15, 2.3e-16]))
        mn, mx = float(data.min()), float(data.max())
        kw["bin_count"] = rng.randint(1, 12) if not tiny else rng.choice([rng.randint(1, 12), int(data.size) + rng.randint(2, 9)])
    elif spec == "edges":
        e = gen.edges(rng, rng.randint(1, 12))
        bins_arg = np.array(e) if rng.random() < 0.7 else np.array(gen.pairs_from_edges(e))
    elif spec == "gapped":
        bins_arg = np.array(gen.gapped_pairs(rng, rng.randint(2, 8)))
    elif spec in ("bincount", "bincount_range"):
        bins_arg = rng.choice(["sturges", "sqrt", "rice", "doane"])
        if spec == "bincount_range":
            kw["range"] = (rng_lo, rng_hi)
    elif spec == "astropy":
        # the astropy-backed rules (blocks / knuth / scott / freedman): no closed-form rule here, but the result must be a
        # well-formed binning that covers its data
        bins_arg = rng.choice(["blocks", "knuth", "scott", "freedman"])
        if data.size > 120:
            data = data[:120]
        if data.size < 5:
            data = np.concatenate([data, data[0] + scale * np.arange(1, 6)])
        mn, mx = float(data.min()), float(data.max())
    else:
        bins_arg = None
    desc["kw"] = {k: (list(v) if isinstance(v, (tuple, list)) else v) for k, v in kw.items()}
    desc["data"] = gen.hexlist(data[:300])
    # ---- obtain the binning through one of the public paths --------------------------------------
    b = None
    raised = None
    try:
        with warnings.catch_warnings():
            warnings.simplefilter("ignore")
            if via == "h1":
                h = physt.h1(data, bins_arg, **kw)
                b = h.binning
            elif via == "calc" or not isinstance(bins_arg, str) or bins_arg in ("sturges", "sqrt", "rice", "doane"):
                b = _construction.calculate_1d_bins(data, bins_arg, **kw)
            else:
                b = binnings.binning_methods[bins_arg](data, **kw)
    except Exception as e:
        raised = e
    mech = None
    # the degenerate-range fallback of numpy-style bins and the tiny-range exponential bins are known findings
    nb_req = bins_arg if isinstance(bins_arg, int) else (kw.get("bin_count", 10) if (bins_arg is None or (isinstance(bins_arg, str) and bins_arg == "numpy")) else None)
    if spec == "bincount":
        nb_req = mb.textbook_bin_count(data, bins_arg)
    if spec in ("int", "numpy", "none", "bincount") and nb_req and nb_req > 0:
        lin = np.linspace(mn, mx, int(nb_req) + 1)
        if (np.diff(lin) == 0).any():
            mech = "numpy_binning.degenerate_range"
    if spec == "exponential" and (math.log10(mx) - math.log10(mn)) / kw["bin_count"] < 1e-13 * max(1.0, abs(math.log10(mx))):
        mech = "exponential.tiny_relative_range"
    if raised is not None and spec == "astropy":
        rec.skip("C07.rule", "astropy_rule_refused")  # these rules may refuse small / degenerate samples
        rec.case(desc, False, cls="astropy/refused")
        return
    if raised is not None and mech == "exponential.tiny_relative_range" and isinstance(raised, ValueError):
        # a range that leaves no room for rising edges is an empty-width specification: refusing it is what the statement asks for
        rec.mon("C07.rule")
        rec.case(desc, False, cls="exponential/too_narrow_refused")
        return
    if raised is not None:
        rec.mon("C07.rule")
        rec.fail(monitor="C07.rule", op=f"{via}/{spec}", symptom=f"valid binning specification refused: {type(raised).__name__}", diff=["raised"], mechanism=mech,
                 detail={**desc, "error": str(raised)[:200]})
        rec.case(desc, False, cls=f"raised/{spec}")
        return
    if rng.random() < 0.5:
        try:
            _ = b.numpy_bins  # cached edges must not disturb later views
        except Exception:
            pass
    with attach.quiet():
        n0 = rec.record_count
        mb.audit_binning(rec, b, op=f"{via}/{spec}", detail=desc)
        if mech and rec.record_count > n0:
            for r in rec.records:
                if r["property"] == "C07" and r["case"] == core.jsonable(rec.current_case) and r["mechanism"] is None:
                    r["mechanism"] = mech
        check_rule(rec, b, data, spec, bins_arg, kw, desc, mech)
        bins = np.asarray(b.bins, dtype=float)
    rec.case(desc, len(bins) >= 2 and (off != 0 or scale != 1.0), cls=f"{spec}/{via}",
             sample={"spec": spec, "kw": desc["kw"], "bins_arg": repr(bins_arg)[:60], "data": data[:6].tolist(), "first_bins": bins[:3].tolist(), "n_bins": len(bins)})


def check_rule(rec, b, data, spec, bins_arg, kw, desc, mech):
    rec.mon("C07.rule")
    bins = np.asarray(b.bins, dtype=float)
    op = f"{desc['via']}/{spec}"

    def fail(symptom, diff, **extra):
        rec.fail(prop="C07", monitor="C07.rule", op=op, symptom=symptom, diff=diff, mechanism=mech, detail={**desc, **extra})

    if len(bins) == 0 or bins.ndim != 2:
        fail("no bins", ["bins"])
        return
    rg = kw.get("range")
    used = data if rg is None else data[(data >= rg[0]) & (data <= rg[1])]
    mn, mx = (float(used.min()), float(used.max())) if used.size else (None, None)
    name = type(b).__name__
    cons = np.array_equal(bins[1:, 0], bins[:-1, 1])
    if spec in ("int", "int_range", "numpy", "none", "bincount", "bincount_range"):
        if spec in ("bincount", "bincount_range"):
            count = mb.textbook_bin_count(used, bins_arg)
            if count == -1:
                return
            if len(bins) != count:
                fail(f"bin count of the '{bins_arg}' rule differs from the textbook formula", ["bin_count"], got=len(bins), expected=count, n=int(used.size))
                return
        elif spec == "numpy":
            count = kw["bin_count"]
        elif spec == "none":
            count = 10
        else:
            count = bins_arg
        try:
            ref = np.histogram_bin_edges(data, count, range=rg)
        except Exception:
            ref = None
        if ref is not None and cons:
            got = np.concatenate([bins[:1, 0], bins[:, 1]])
            if got.shape != ref.shape or not np.array_equal(got, ref):
                fail("numpy-style arguments do not give numpy.histogram's edges", ["bins"], got=got[:6], expected=ref[:6], count=count)
        elif not cons:
            fail("numpy-style bins are not consecutive", ["bins"])
        if rg is None and mn is not None and not (bins[0, 0] <= mn and mx <= bins[-1, 1]):
            fail("numpy-style bins do not cover the data they were derived from", ["coverage"], min=mn.hex(), max=mx.hex(), first=bins[0], last=bins[-1])
        if name != "NumpyBinning":
            fail("numpy-style arguments did not give a NumpyBinning", ["class"], got=name)
    elif spec in ("fixed_width", "fixed_width_range", "integer", "pretty", "pretty_range"):
        if name != "FixedWidthBinning":
            fail("fixed-width rule did not give a FixedWidthBinning", ["class"], got=name)
        width = None
        shift = None
        if spec.startswith("fixed_width"):
            width = float(kw["bin_width"])
            if kw.get("align", True):
                shift = float(kw.get("bin_shift", 0.0) or 0.0)
        elif spec == "integer":
            width = float(kw.get("bin_width", 1))
        mb.check_equal_width_grid(rec, bins, width, shift, op=op, detail=desc, half_integer=(spec == "integer" and width == 1.0))
        w = float(getattr(b, "bin_width", bins[0, 1] - bins[0, 0]))
        if spec.startswith("pretty"):
            if not mb.pretty_family(w):
                fail("pretty bin width is not from {1, 2, 2.5, 5} * 10^k", ["bins"], width=w)
            else:
                # through h1 / calculate_1d_bins the data are restricted to the range first; the factory itself sees all data
                count = kw.get("bin_count") or mb.textbook_bin_count(data if desc["via"] == "factory" else used, "default")
                lo, hi = (mn, mx) if rg is None else (float(rg[0]), float(rg[1]))
                if lo is not None and hi > lo:
                    raw = (hi - lo) / count
                    if raw > 0 and not mb.pretty_nearest(w, raw):
                        fail("pretty bin width is not the family member nearest to range / bin_count", ["bins"], width=w, raw=raw)
            k = round(bins[0, 0] / w)
            if abs(bins[0, 0] - k * w) > 8 * max(mb._ulp(bins[0, 0]), mb._ulp(float(np.max(np.abs(bins))))):
                fail("pretty bins are not aligned to multiples of their width", ["bins"], first_edge=float(bins[0, 0]), width=w)
        # coverage: the data it was derived from (exactly) or the requested range
        if rg is not None:
            if not (bins[0, 0] <= rg[0] and rg[1] <= bins[-1, 1]):
                fail("bins do not cover the requested range", ["coverage"], range=list(rg), first=bins[0], last=bins[-1])
            if not (bins[0, 0] <= rg[0] < bins[0, 1]) or not (bins[-1, 0] < rg[1] <= bins[-1, 1] or bins[-1, 0] <= rg[1] < bins[-1, 1]):
                fail("bins extend beyond the bins needed for the requested range", ["span"], range=list(rg), first=bins[0], last=bins[-1])
        elif mn is not None:
            if not (bins[0, 0] <= mn) or not (mx < bins[-1, 1] or (mx == bins[-1, 1] and bool(b.includes_right_edge))):
                fail("bins do not cover the data they were derived from", ["coverage"], min=mn.hex(), max=mx.hex(), first=bins[0], last=bins[-1])
            elif not (mn < bins[0, 1]) or not (bins[-1, 0] <= mx):
                fail("superfluous empty bin at an end of data-derived fixed-width bins", ["span"], min=mn.hex(), max=mx.hex(), first=bins[0], last=bins[-1])
    elif spec == "quantile":
        if "q" in kw:
            qs = list(kw["q"])
        else:
            lo, hi = kw.get("qrange", (0.0, 1.0))
            qs = np.linspace(lo, hi, kw["bin_count"] + 1).tolist()
        ref = mb.textbook_quantiles(used, qs)
        got = np.concatenate([bins[:1, 0], bins[:, 1]])
        if not cons:
            fail("quantile bins are not consecutive", ["bins"])
        elif got.shape != ref.shape or not np.allclose(got, ref, rtol=1e-12, atol=1e-12 * float(np.max(np.abs(used)))):
            fail("quantile edges are not the data quantiles", ["bins"], got=got[:6], expected=ref[:6], q=qs[:6])
    elif spec == "exponential":
        if name != "ExponentialBinning":
            fail("exponential rule did not give an ExponentialBinning", ["class"], got=name)
        e = np.concatenate([bins[:1, 0], bins[:, 1]])
        if not cons or np.any(e <= 0):
            fail("exponential edges are not positive and consecutive", ["bins"], edges=e[:6])
        else:
            ratios = e[1:] / e[:-1]
            if np.max(np.abs(ratios / ratios[0] - 1)) > 1e-9:
                fail("exponential edges do not form a geometric sequence", ["bins"], ratios=ratios[:6])
            if not (e[0] <= mn * (1 + 1e-9) and e[-1] >= mx * (1 - 1e-9)):
                fail("exponential bins do not cover their data (up to rounding)", ["coverage"], min=mn, max=mx, first=e[0], last=e[-1])
            if len(bins) != kw["bin_count"]:
                fail("exponential bin count differs from the request", ["bin_count"], got=len(bins))
    elif spec == "astropy":
        tol = 1e-9 * (abs(mn) + abs(mx) + (mx - mn))
        if not (bins[0, 0] <= mn + tol and mx - tol <= bins[-1, 1]):
            fail("bins of an astropy-backed rule do not cover the data they were derived from", ["coverage"], min=mn, max=mx, first=bins[0], last=bins[-1])
        if not cons:
            fail("bins of an astropy-backed rule are not consecutive", ["bins"])
    elif spec in ("edges", "gapped"):
        want = np.asarray(bins_arg, dtype=float)
        if want.ndim == 1:
            want = np.stack([want[:-1], want[1:]], axis=1)
        if bins.shape != want.shape or not np.array_equal(bins, want):
            fail("explicit edges / pairs are not reported unchanged", ["bins"], got=bins[:4], expected=want[:4])
        if name != "StaticBinning":
            fail("explicit edges did not give a StaticBinning", ["class"], got=name)


def refusal_case(ctx, index, rng: random.Random):
    """Unsorted, overlapping, empty-width or wrongly shaped specifications are refused."""
    import physt
    from physt import binnings

    rec = ctx.rec
    rec.mon("C07.refusal")
    e = gen.edges(rng, rng.randint(2, 8))
    if rng.random() < 0.25:
        # specifications that are not edge arrays: falling / empty-width exponential parameters (also through from_dict), and
        # selections of a binning that would put the bins out of order
        which = rng.choice(["exp_negative", "exp_zero", "exp_dict", "reversed_slice", "reversed_part", "unordered_list"])
        raised, made = False, None
        try:
            with warnings.catch_warnings():
                warnings.simplefilter("ignore")
                if which == "exp_negative":
                    made = binnings.ExponentialBinning(0.0, -rng.choice([0.5, 1.0]), rng.randint(1, 5))
                elif which == "exp_zero":
                    made = binnings.ExponentialBinning(1.0, 0.0, rng.randint(1, 5))
                elif which == "exp_dict":
                    made = binnings.BinningBase.from_dict({"binning_type": "ExponentialBinning", "log_min": 0.0, "log_width": -1.0, "bin_count": 3})
                else:
                    cls_ = rng.choice(["static", "numpy", "fixed"])
                    src = {"static": lambda: binnings.StaticBinning(np.array(gen.pairs_from_edges(e))), "numpy": lambda: binnings.NumpyBinning(np.array(e)),
                           "fixed": lambda: binnings.FixedWidthBinning(bin_width=0.5, bin_count=len(e) - 1, min=1.0)}[cls_]()
                    n_ = src.bin_count
                    if which == "reversed_slice":
                        made = src[::-1]
                    elif which == "reversed_part":
                        made = src[n_ - 1:0:-1] if n_ >= 3 else src[::-1]
                    else:
                        made = binnings.StaticBinning(np.array(gen.pairs_from_edges(e)))[[n_ - 1, 0]]
                    which = f"{which}/{cls_}"
                    # a selection that is answered must at least be a well-formed binning
                    mb_ = np.asarray(made.bins, dtype=float)
                    if mb_.ndim == 2 and (len(mb_) < 2 or (np.all(mb_[:, 0] < mb_[:, 1]) and np.all(mb_[1:, 0] >= mb_[:-1, 1]))):
                        raised = True  # an ordered answer (e.g. a single bin) is not an unsorted specification
        except Exception:
            raised = True
        if not raised:
            rec.fail(monitor="C07.refusal", op=which, symptom="a falling / empty-width / out-of-order bin specification was accepted", diff=["not_refused"],
                     detail={"which": which, "bins": None if made is None else np.asarray(made.bins).tolist()[:6]})
        rec.case(["refusal2", which, e], True, cls=f"refusal/{which.split('/')[0]}")
        return
    kind = rng.choice(["unsorted", "overlap", "zero_width", "shape3", "shape_n3", "reversed_pair", "duplicate_edge"])
    if kind == "unsorted":
        bad = list(e)
        i = rng.randrange(len(bad) - 1)
        bad[i], bad[i + 1] = bad[i + 1], bad[i]
        arr = np.array(bad)
    elif kind == "overlap":
        p = gen.pairs_from_edges(e)
        p[1][0] = (p[0][0] + p[0][1]) / 2
        arr = np.array(p)
    elif kind == "zero_width":
        p = gen.pairs_from_edges(e)
        k = rng.randrange(len(p))
        p[k][1] = p[k][0]
        arr = np.array(p)
    elif kind == "shape3":
        arr = np.zeros((2, 2, 2)) + np.arange(2)
    elif kind == "shape_n3":
        arr = np.array([[0.0, 1.0, 2.0], [2.0, 3.0, 4.0]])
    elif kind == "reversed_pair":
        p = gen.pairs_from_edges(e)
        k = rng.randrange(len(p))
        p[k] = [p[k][1], p[k][0]]
        arr = np.array(p)
    else:
        bad = list(e)
        bad.insert(1, bad[1])
        arr = np.array(bad)
    if rng.random() < 0.3 and arr.ndim <= 2 and arr.size and arr.shape[-1] != 3:
        # the same malformed specification as an integer / unsigned integer array (differences must not wrap around)
        lo = float(np.min(arr))
        scale_i = 10.0 / max(1e-12, float(np.max(arr)) - lo)
        ints = np.round((arr - lo) * scale_i)
        cand = ints.astype(rng.choice([np.uint8, np.uint16, np.uint32, np.uint64, np.int32, np.int8]))
        chk = cand.astype(float)
        bad_still = (chk.ndim == 1 and not np.all(np.diff(chk) > 0)) or (chk.ndim == 2 and (np.any(chk[:, 0] >= chk[:, 1]) or np.any(chk[1:, 0] < chk[:-1, 1])))
        if bad_still:
            arr = cand
            kind = kind + "/int"
    how = rng.choice(["h1", "StaticBinning", "NumpyBinning", "static_binning", "as_binning", "Histogram1D"])
    if how == "NumpyBinning" and arr.ndim != 1:
        how = "StaticBinning"
    raised = False
    try:
        with warnings.catch_warnings():
            warnings.simplefilter("ignore")
            if how == "h1":
                physt.h1(np.array([0.5, 1.5]), arr)
            elif how == "StaticBinning":
                binnings.StaticBinning(arr)
            elif how == "NumpyBinning":
                binnings.NumpyBinning(arr)
            elif how == "static_binning":
                binnings.static_binning(None, bins=arr)
            elif how == "as_binning":
                binnings.as_binning(arr)
            else:
                from physt.histogram1d import Histogram1D

                Histogram1D(arr)
    except Exception:
        raised = True
    if not raised:
        rec.fail(monitor="C07.refusal", op=f"{how}/{kind}", symptom="invalid bin specification was not refused", diff=["not_refused"], detail={"kind": kind, "how": how, "bins": arr})
    rec.case([kind, how, arr.tolist()], True, cls=f"refusal/{kind}/{how}")


def classes_case(ctx, index, rng: random.Random):
    """Every binning class constructed directly, with both includes_right_edge values, consecutive and gapped."""
    from physt import binnings

    rec = ctx.rec
    kind = rng.choice(["static", "static_gapped", "numpy", "fixed", "fixed_adaptive", "exponential", "fixed_empty"])
    closed = rng.random() < 0.5
    if kind == "fixed_empty":
        # an empty adaptive fixed-width binning (aligned or not, shifted or not) and its copy must react identically to the same values
        rec.mon("C07.audit")
        w = rng.choice(gen.WIDTH_POOL)
        kw = {"bin_width": w, "adaptive": True}
        if rng.random() < 0.5:
            kw["align"] = False
        elif rng.random() < 0.4:
            kw["bin_shift"] = round(w * rng.choice([0.5, 0.25]), 12)
        try:
            a, b_ = binnings.FixedWidthBinning(**kw), binnings.FixedWidthBinning(**kw)
            if rng.random() < 0.5:
                _ = a.bins
            c = a.copy()
            vals = [rng.uniform(-50, 50) * w for _ in range(rng.randint(1, 3))]
            for v in vals:
                c.force_bin_existence(v)
                b_.force_bin_existence(v)
            with attach.quiet():
                if not np.array_equal(np.asarray(c.bins), np.asarray(b_.bins)) or not (c == b_):
                    rec.fail(monitor="C07.audit", op="class/fixed_empty", symptom="the copy of an empty adaptive binning reacts differently to the same values than its source",
                             diff=["copy"], detail={"kw": {k: v for k, v in kw.items()}, "values": vals, "copy": np.asarray(c.bins)[:3], "source": np.asarray(b_.bins)[:3]})
                mb.audit_binning(rec, c, op="class/fixed_empty", detail={"kw": str(kw)})
        except Exception as e:
            rec.fail(monitor="C07.audit", op="class/fixed_empty", symptom=f"empty adaptive binning raised {type(e).__name__}", diff=["raised"], detail={"error": str(e)[:160]})
        rec.case(["fixed_empty", str(kw)], True, cls="class/fixed_empty")
        return
    try:
        if kind == "static":
            b = binnings.StaticBinning(np.array(gen.pairs_from_edges(gen.edges(rng, rng.randint(1, 10)))), includes_right_edge=closed)
        elif kind == "static_gapped":
            b = binnings.StaticBinning(np.array(gen.gapped_pairs(rng, rng.randint(2, 8))), includes_right_edge=closed)
        elif kind == "numpy":
            b = binnings.NumpyBinning(np.array(gen.edges(rng, rng.randint(1, 10))), includes_right_edge=closed)
        elif kind in ("fixed", "fixed_adaptive"):
            w = rng.choice(gen.WIDTH_POOL)
            adaptive = kind == "fixed_adaptive"
            b = binnings.FixedWidthBinning(bin_width=w, bin_count=rng.randint(1, 12), min=rng.choice([0.0, 1.7, -3.3, 100.0]),
                                           includes_right_edge=(closed and not adaptive), adaptive=adaptive)
            if adaptive and rng.random() < 0.7:
                _ = b.bins
                # grown binnings must stay consistent (stale caches); growth bounded to a few dozen bins
                b.force_bin_existence(float(b.first_edge) + w * rng.choice([-7.5, 40.25, 3.3, -0.5]))
        else:
            b = binnings.ExponentialBinning(log_min=rng.uniform(-3, 3), log_width=rng.choice([0.1, 0.5, 1.0]), bin_count=rng.randint(1, 8), includes_right_edge=closed)
    except Exception as e:
        rec.mon("C07.audit")
        rec.fail(monitor="C07.audit", op=f"class/{kind}", symptom=f"valid binning class construction raised {type(e).__name__}", diff=["raised"], detail={"error": str(e)[:160]})
        return
    if rng.random() < 0.5:
        try:
            _ = b.numpy_bins
            _ = b.is_consecutive()
        except Exception:
            pass
    with attach.quiet():
        mb.audit_binning(rec, b, op=f"class/{kind}", detail={"kind": kind, "closed": closed})
        bins = np.asarray(b.bins).tolist()
    rec.case([kind, closed, bins], len(bins) >= 2, cls=f"class/{kind}")


def far_offset_case(ctx, index, rng: random.Random):
    """Equal-width bins far from zero (time stamps around 1.7e9 in bins of 1e-4 s): every edge is within half an ulp of its grid position;
    the binning, its static copy and its slices give the same answers about themselves."""
    import physt
    from physt import binnings

    rec = ctx.rec
    rec.mon("C07.audit")
    base = rng.choice([1.7e9, 1.0e9, 4.0e8])
    w = rng.choice([1e-4, 1e-3, 2.5e-4])
    how = rng.choice(["class", "facade", "numpy"])
    try:
        with warnings.catch_warnings():
            warnings.simplefilter("ignore")
            if how == "class":
                b = binnings.FixedWidthBinning(bin_width=w, bin_count=rng.randint(3, 30), min=base)
            elif how == "facade":
                data = base + w * np.asarray([rng.uniform(0, 20) for _ in range(30)])
                b = physt.h1(data, "fixed_width", bin_width=w).binning
            else:
                data = base + np.asarray([rng.uniform(0, 1) for _ in range(30)])
                b = physt.h1(data, rng.choice([7, 100])).binning
    except Exception as ex:
        rec.case(["far_offset", base, w, how], False, cls=f"far_offset/{how}/refused")
        return
    with attach.quiet():
        mb.audit_binning(rec, b, op=f"far_offset/{how}", detail={"base": base, "width": w})
    rec.case(["far_offset", base, w, how, b.bin_count], True, cls=f"far_offset/{how}")


def run(ctx):
    ctx.run_cases(ctx.scale(40, 200), far_offset_case, salt="faroffset")
    ctx.run_cases(ctx.scale(700, 6000), one_case, salt="rule")
    ctx.run_cases(ctx.scale(150, 1000), refusal_case, salt="refusal")
    ctx.run_cases(ctx.scale(200, 1500), classes_case, salt="classes")
