"""Random histories over a small population of histograms ("few keys, many operations").

Used by C12 (independence), C13 (dtype coherence) and C18 (well-formedness, atomicity): the world
monitor (pvm.world) watches every public call; this module only *drives* — constructions,
derivations, mutations, direct attribute edits and injected invalid calls — with op weights chosen
by the calling property.
"""
from __future__ import annotations

import json
import math
import random
import warnings
from typing import Any, Callable, Dict, List, Optional, Tuple

import numpy as np

from . import attach, core, gen, snapshot as snap
from .world import World, is_hist

DTYPES = ["int16", "int32", "int64", "float16", "float32", "float64"]


class History:
    def __init__(self, ctx, rng: random.Random, world: World, *, profile: str):
        self.ctx = ctx
        self.rng = rng
        self.world = world
        self.profile = profile
        self.pop: List[Any] = []
        self.log: List[str] = []
        self.stats = {"derivations": 0, "mutations": 0, "faults": 0, "faults_raised": 0, "grow": 0, "direct": 0}

    # -- helpers --------------------------------------------------------------------------------
    def note(self, s: str):
        if len(self.log) < 60:
            self.log.append(s)

    def add(self, h, sources=()):
        if is_hist(h):
            self.world.register(h, sources)
            if not any(h is x for x in self.pop):
                self.pop.append(h)
                if len(self.pop) > 8:
                    old = self.pop.pop(0)
                    self.world.forget(old)

    def pick(self, pred: Callable[[Any], bool] = lambda h: True):
        c = [h for h in self.pop if pred(h)]
        return self.rng.choice(c) if c else None

    # -- construction ---------------------------------------------------------------------------
    def create(self):
        import physt

        rng = self.rng
        kind = rng.choice(["1d_static", "1d_static", "1d_adaptive", "1d_adaptive", "2d_static", "2d_adaptive", "3d_static", "1d_gapped", "1d_fixed", "2d_fixed", "1d_huge"])
        n = rng.randint(0, 25)
        if rng.random() < 0.12:
            # "the same bins as that one": the facade is given the binning of a histogram that lives on
            src = self.pick(lambda o: o.ndim == 1 and type(o).__name__ == "Histogram1D" and o.shape[0] > 0)
            if src is not None:
                kind = "1d_like"
        try:
            if kind == "1d_like":
                data = self.values_for(src, n)[:, 0]
                with warnings.catch_warnings():
                    warnings.simplefilter("ignore")
                    if rng.random() < 0.5:
                        h = physt.h1(data, src.binning)
                    else:
                        # the public constructor over the other one's binning (empty, or with the other one's contents)
                        h = type(src)(src.binning) if rng.random() < 0.5 else type(src)(src.binning, np.asarray(src.frequencies).copy())
            elif kind == "1d_huge":
                # bins wide enough for values whose square is not a finite double: statistics may give up (NaN), operations may not
                e = [-1e200, -1.0, 0.0, 2.5, 1e200]
                data = gen.data_for_bins(rng, gen.pairs_from_edges(e), n, nan_ok=False)
                with warnings.catch_warnings():
                    warnings.simplefilter("ignore")
                    with np.errstate(all="ignore"):
                        h = physt.h1(np.asarray(data, dtype=float), np.array(e), name="huge")
            elif kind == "1d_static" or kind == "1d_gapped":
                if kind == "1d_gapped":
                    pairs = gen.gapped_pairs(rng, rng.randint(2, 6))
                    bins = np.array(pairs)
                else:
                    e = gen.edges(rng, rng.randint(1, 8))
                    pairs = gen.pairs_from_edges(e)
                    bins = np.array(e)
                data = gen.data_for_bins(rng, pairs, n, nan_ok=False)
                kw = {}
                if rng.random() < 0.4:
                    kw["weights"] = np.asarray([rng.randint(0, 16) / 4 for _ in range(n)])
                elif rng.random() < 0.5:
                    kw["dtype"] = rng.choice(["int64", "int32", "int16", "float64", "float32"])
                if kind == "1d_gapped" and rng.random() < 0.5:
                    kw.pop("dtype", None)
                    kw["weights"] = np.asarray([rng.randint(0, 16) / 4 for _ in range(n)])
                if rng.random() < 0.2:
                    kw["keep_missed"] = False
                h = physt.h1(np.asarray(data, dtype=float), bins, name=rng.choice([None, "a", "b"]), axis_name=rng.choice([None, "x"]), **kw)
            elif kind == "1d_adaptive":
                w = rng.choice([0.1, 0.5, 1.0, 2.5, 0.3])
                data = [rng.uniform(-5, 5) for _ in range(n)]
                kw = {}
                if rng.random() < 0.3 and n:
                    kw["weights"] = np.asarray([rng.randint(0, 16) / 4 for _ in range(n)])
                h = physt.h1(np.asarray(data) if n else None, "fixed_width", bin_width=w, adaptive=True, **kw)
            elif kind == "1d_fixed":
                # fixed-width bins that are not adaptive (yet): set_adaptive(True) may come later in the history
                w = rng.choice([0.5, 1.0, 2.5])
                data = [rng.uniform(-5, 5) for _ in range(max(n, 1))]
                # (right-closed fixed-width bins cannot become adaptive: the switch is refused, or the histogram stays usable)
                h = physt.h1(np.asarray(data), "fixed_width", bin_width=w, **({"includes_right_edge": True} if rng.random() < 0.3 else {}))
            elif kind == "2d_fixed":
                w = [rng.choice([0.5, 1.0, 2.5]) for _ in range(2)]
                rows = np.array([[rng.uniform(-4, 4), rng.uniform(-4, 4)] for _ in range(max(n, 1))])
                h = physt.h(rows, "fixed_width", bin_width=w, axis_names=["u", "v"])
            elif kind in ("2d_static", "3d_static"):
                d = 2 if kind == "2d_static" else 3
                pr = [gen.pairs_from_edges(gen.edges(rng, rng.randint(1, 4))) for _ in range(d)]
                cols = [gen.data_for_bins(rng, p, n) for p in pr]
                rows = np.array(cols, dtype=float).T.reshape(n, d)
                kw = {}
                if rng.random() < 0.4:
                    kw["weights"] = np.asarray([rng.randint(0, 16) / 4 for _ in range(n)])
                h = physt.h(rows, [np.array([p[0] for p in q] + [q[-1][1]]) for q in pr], axis_names=["x", "y", "z"][:d], **kw)
            else:
                w = [rng.choice([0.5, 1.0, 2.5]) for _ in range(2)]
                rows = np.array([[rng.uniform(-4, 4), rng.uniform(-4, 4)] for _ in range(max(n, 1))])
                h = physt.h(rows, "fixed_width", bin_width=w, adaptive=True)
        except Exception as e:
            self.note(f"create {kind} raised {type(e).__name__}")
            return None
        if rng.random() < 0.4:
            # mutable metadata values from the start (a list of cuts, a nested dict as parsed from JSON)
            with attach.quiet():
                # (also under a key that is the name of a constructor argument: such entries travel on a path of their own)
                # ("anything can be put in": also mutable values no JSON document could hold - an array of calibration constants, a set of tags)
                h.meta_data[rng.choice(["cuts", "missed"])] = rng.choice([lambda: [1, 2], lambda: {"a": [1]}, lambda: [1, 2], lambda: {"a": [1]}, lambda: np.array([1.5, 2.5]), lambda: {"raw", "v1"}])()
        self.add(h)
        self.note(f"create {kind} -> {type(h).__name__}{h.shape}:{h.dtype}")
        return h

    # -- values for filling -----------------------------------------------------------------------
    def values_for(self, h, n: int, *, grow: bool = False) -> np.ndarray:
        rng = self.rng
        rows = []
        bins = [np.asarray(h.bins)] if h.ndim == 1 else [np.asarray(b) for b in h.bins]
        for _ in range(n):
            row = []
            for b in bins:
                if len(b) == 0:
                    row.append(rng.uniform(-3, 3))
                    continue
                lo, hi = float(b[0, 0]), float(b[-1, 1])
                span = hi - lo
                r = rng.random()
                if (grow or r < 0.25) and len(b) < 150:
                    row.append(rng.choice([lo - rng.uniform(0.1, 3) * span - 0.3, hi + rng.uniform(0.1, 3) * span + 0.3]))
                elif r < 0.45:
                    row.append(float(rng.choice(b.ravel().tolist())))
                else:
                    row.append(rng.uniform(lo, hi))
            rows.append(row)
        return np.array(rows, dtype=float).reshape(n, len(bins))

    # -- derivations ------------------------------------------------------------------------------
    def derive(self):
        rng = self.rng
        h = self.pick()
        if h is None:
            return
        ops = ["copy", "copy0", "mul", "rmul", "div", "normalize", "merge", "add", "add_copy", "json", "getitem", "sub", "sum_of_one", "dict"]
        if type(h).__name__ == "Histogram1D" and hasattr(h, "to_xarray"):
            ops += ["xarray"]
        if h.ndim >= 2:
            ops += ["projection", "projection", "select_int", "select_slice", "accumulate"]
        if type(h).__name__ == "Histogram2D":
            ops += ["T", "partial_normalize"]
        op = rng.choice(ops)
        r = None
        try:
            if op == "copy":
                r = h.copy()
            elif op == "copy0":
                r = h.copy(include_frequencies=False)
            elif op == "mul":
                r = h * rng.choice([2, 3, 0.5, 1.5, np.float32(2.0), np.int64(2)])
            elif op == "rmul":
                r = rng.choice([2, 0.25, 4.0]) * h
            elif op == "div":
                r = h / rng.choice([2, 4, 0.5, np.float64(8.0)])
            elif op == "normalize":
                if h.total > 0:
                    r = h.normalize(percent=rng.random() < 0.3)
            elif op == "merge":
                ax = rng.randrange(h.ndim) if rng.random() < 0.7 else None
                r = h.merge_bins(rng.randint(1, 3), axis=ax)
            elif op == "sum_of_one":
                # sum() over a single histogram (or 0 + h) is arithmetic like any other: a histogram of its own
                r = rng.choice([lambda: sum([h]), lambda: 0 + h, lambda: np.int64(0) + h, lambda: 0.0 + h])()
                if r is h:
                    self.ctx.rec.fail(prop="C12", monitor="C12.world.bystander", op="sum([h]) / 0 + h", symptom="an arithmetic result is the operand itself (not independent of it)",
                                      diff=["identity"], detail={"class": type(h).__name__})
            elif op == "add_copy":
                r = h + h.copy()
            elif op == "add":
                other = self.pick(lambda o: o is not h and o.ndim == h.ndim and type(o) is type(h) and o.shape == h.shape)
                if other is not None:
                    r = h + other  # may be refused for different bins: then nothing may change
            elif op == "sub":
                with warnings.catch_warnings():
                    warnings.simplefilter("ignore")
                    r = h - (h * 0.5 if rng.random() < 0.5 else h.copy())
            elif op == "json":
                import physt.io

                r = physt.io.parse_json(h.to_json())
            elif op == "dict":
                # the tree of plain python objects that the JSON writer / reader is built on
                import physt.io

                r = type(h).from_dict(h.to_dict()) if rng.random() < 0.5 else physt.io.create_from_dict(h.to_dict(), "JSON", check_version=False)
            elif op == "xarray":
                with warnings.catch_warnings():
                    warnings.simplefilter("ignore")
                    r = type(h).from_xarray(h.to_xarray())
            elif op == "getitem":
                if h.ndim == 1:
                    n = h.shape[0]
                    if n >= 2:
                        a = rng.randint(0, n - 1)
                        b = rng.randint(a + 1, n)
                        r = h[a:b] if rng.random() < 0.7 else h[np.arange(a, b)]
                else:
                    n = h.shape[0]
                    if n >= 1:
                        r = h[rng.randrange(n)] if rng.random() < 0.5 else h[0:max(1, n - 1)]
            elif op == "projection":
                # proper subsets and (legal but unusual) all axes, in any order
                k = h.ndim if rng.random() < 0.2 else rng.randint(1, h.ndim - 1)
                axes = rng.sample(range(h.ndim), k)
                r = h.projection(*axes)
            elif op == "select_int":
                ax = rng.randrange(h.ndim)
                if h.shape[ax]:
                    r = h.select(ax, rng.randrange(h.shape[ax]))
            elif op == "select_slice":
                ax = rng.randrange(h.ndim)
                n = h.shape[ax]
                if n >= 2:
                    r = h.select(ax, slice(rng.randint(0, n - 2), n))
            elif op == "accumulate":
                r = h.accumulate(rng.randrange(h.ndim))
            elif op == "T":
                r = h.T
            elif op == "partial_normalize":
                r = h.partial_normalize(rng.randrange(2))
        except Exception as e:
            self.note(f"derive {op} raised {type(e).__name__}: {str(e)[:60]}")
            return
        if is_hist(r) and r is not h:
            self.stats["derivations"] += 1
            self.add(r, sources=(h,))
            self.note(f"derive {op}({type(h).__name__}{h.shape}) -> {type(r).__name__}{r.shape}:{r.dtype}")

    # -- mutations --------------------------------------------------------------------------------
    def mutate(self):
        rng = self.rng
        h = self.pick()
        if h is None:
            return
        ops = ["fill", "fill", "fill_n", "fill_n", "fill_w", "fill_n_w", "imul", "idiv", "iadd_copy", "iadd_peer", "set_dtype", "normalize_inplace", "merge_inplace", "meta", "isub", "read", "restore_from_backup"]
        if h.is_adaptive():
            ops += ["fill_grow", "fill_n_grow", "fill_grow", "iadd_grown"]
        elif all(type(b).__name__ == "FixedWidthBinning" for b in h.binnings):
            ops += ["set_adaptive", "set_adaptive", "set_adaptive"]
        op = rng.choice(ops)
        if op in ("iadd_copy", "iadd_peer", "iadd_grown") and np.dtype(h.dtype).kind in "iu" and float(np.max(np.asarray(h.errors2), initial=0)) > 1e16:
            op = "idiv"  # repeated doubling of integer contents must not run into numpy's silent wrap-around either
        try:
            if op in ("fill", "fill_w", "fill_grow"):
                v = self.values_for(h, 1, grow=(op == "fill_grow"))[0]
                val = float(v[0]) if h.ndim == 1 else v
                if op == "fill_w":
                    h.fill(val, rng.choice([2, 0.5, 1.25, np.float32(0.5)]))
                else:
                    h.fill(val)
                if op == "fill_grow":
                    self.stats["grow"] += 1
            elif op in ("fill_n", "fill_n_w", "fill_n_grow"):
                n = rng.randint(0, 6)
                v = self.values_for(h, n, grow=(op == "fill_n_grow"))
                arg = v[:, 0] if h.ndim == 1 else v
                if op == "fill_n_w":
                    h.fill_n(arg, np.asarray([rng.randint(0, 12) / 4 for _ in range(n)]))
                else:
                    h.fill_n(arg)
                if op == "fill_n_grow" and n:
                    self.stats["grow"] += 1
            elif op == "restore_from_backup":
                # contents moved between a histogram and its backup copy through the public setters: the two stay two histograms
                backup = h.copy()
                self.add(backup)
                self.direct(h, lambda: (setattr(h, "frequencies", backup.frequencies), setattr(h, "errors2", backup.errors2)), "frequencies= / errors2= from a backup copy")
                self.note(f"restore {type(h).__name__} from its backup")
                return
            elif op == "set_adaptive":
                if rng.random() < 0.5:
                    h.set_adaptive(True)  # from now on fills may grow the bins of this object (and of nothing else)
                else:
                    h.adaptive = True  # (the property spelling of the same switch)
                try:
                    with attach.quiet():
                        h.copy()
                except Exception as e_:
                    self.ctx.rec.fail(prop="C18", monitor="C18.world.wellformed", op="set_adaptive", symptom="an accepted set_adaptive(True) left a histogram that cannot even be copied",
                                      diff=["unusable"], detail={"error": f"{type(e_).__name__}: {e_}"[:140], "class": type(h).__name__,
                                                                 "right_closed": [bool(b.includes_right_edge) for b in h.binnings]})
                    raise
                v = self.values_for(h, 2, grow=True)
                h.fill_n(v[:, 0] if h.ndim == 1 else v)
                self.stats["grow"] += 1
            elif op == "imul":
                c = rng.choice([2, 0.5, 3.0, 2, 1000, 300])
                # integer contents: keep the squared errors (x c*c) far inside int64 - silent integer wrap-around of numpy is outside every statement
                if np.dtype(h.dtype).kind in "iu" and float(np.max(np.asarray(h.errors2), initial=0)) * c * c > 1e15:
                    c = 0.5
                h *= c
            elif op == "iadd_peer":
                o = self.pick(lambda o: o is not h and type(o) is type(h) and o.shape == h.shape)
                if o is None:
                    return
                h += o  # refused for different bins: then nothing may change
            elif op == "idiv":
                h /= rng.choice([2, 4.0, 0.5])
            elif op == "iadd_copy":
                o = h.copy()
                self.add(o, sources=(h,))
                if h.ndim == 1 and rng.random() < 0.5:
                    b_ = np.asarray(h.bins)
                    gaps_ = [i for i in range(len(b_) - 1) if b_[i, 1] != b_[i + 1, 0]]
                    if gaps_:
                        # the addend has met a value in a gap: its under / overflow read "unknown" (NaN), also for integer contents
                        i_ = rng.choice(gaps_)
                        o.fill(float((b_[i_, 1] + b_[i_ + 1, 0]) / 2))
                h += o
            elif op == "iadd_grown":
                o = h.copy()
                self.add(o, sources=(h,))
                v = self.values_for(o, 2, grow=True)
                o.fill_n(v[:, 0] if o.ndim == 1 else v)
                h += o
                self.stats["grow"] += 1
            elif op == "isub":
                with warnings.catch_warnings():
                    warnings.simplefilter("ignore")
                    o = h * 0.5
                    self.add(o, sources=(h,))
                    h -= o
            elif op == "set_dtype":
                h.set_dtype(rng.choice(["float64", "float64", "float32", "int64"]))  # may be refused: then nothing may change
            elif op == "normalize_inplace":
                if h.total > 0:
                    h.normalize(inplace=True)
            elif op == "merge_inplace":
                h.merge_bins(2, axis=rng.randrange(h.ndim), inplace=True)
            elif op == "read":
                # reading representations / predicates (which may fill caches) changes nothing - now or for later operations
                from .attach import quiet

                names = ["bins", "edges", "numpy_bins", "densities", "bin_sizes", "total", "shape", "bin_count", "errors", "frequencies", "missed", "statistics"]
                with quiet():
                    pre = self.world.snapshot_all()
                with warnings.catch_warnings():
                    warnings.simplefilter("ignore")
                    for nm in rng.sample(names, rng.randint(1, 5)):
                        try:
                            getattr(h, nm)
                        except Exception:
                            pass
                    for b in h.binnings:
                        gen.touch_binning(rng, b, p=0.8)
                    try:
                        repr(h), str(h.binnings[0])
                    except Exception:
                        pass
                    try:
                        # the contents as an array (np.asarray(h)): a reader. It is the histogram's own array - as h.frequencies is;
                        # writing into it is the caller's own doing and no operation of the library (see DESIGN, rounds 6 and 7)
                        _ = np.asarray(h), h.adaptive, len(h.bins), list(h.axis_names)
                    except Exception:
                        pass
                with quiet():
                    self.world.check(self.ctx.rec, op="read-only accessors", pre=pre, targets=[], result=None, exc=None, operands=[], detail={"direct": True})
                self.note(f"read accessors of {type(h).__name__}")
                return
            elif op == "meta":
                which = rng.randrange(6)
                self.stats["direct"] += 1
                if which >= 4:
                    # a mutable metadata value (a list of cuts, a dict as parsed from JSON), later edited in place
                    def edit_mutable():
                        cur = h.meta_data.get("cuts")
                        if not isinstance(cur, (list, dict, set, np.ndarray)):
                            cur = h.meta_data.get("missed", cur)
                        if isinstance(cur, list):
                            cur.append(rng.randint(0, 99))
                        elif isinstance(cur, dict):
                            cur["k%d" % rng.randint(0, 9)] = rng.randint(0, 99)
                        elif isinstance(cur, set):
                            cur.add("t%d" % rng.randint(0, 99))
                        elif isinstance(cur, np.ndarray):
                            cur[0] += 1.0
                        else:
                            h.meta_data["cuts"] = [1, 2] if which == 4 else {"a": [1]}
                    self.direct(h, edit_mutable, "meta_data[...] edited in place")
                    self.note(f"direct mutable meta edit on {type(h).__name__}")
                    return
                if which == 0:
                    self.direct(h, lambda: setattr(h, "name", rng.choice(["n1", "n2"])), "name=")
                elif which == 1:
                    self.direct(h, lambda: setattr(h, "title", "t" + str(rng.randint(0, 9))), "title=")
                elif which == 2:
                    self.direct(h, lambda: setattr(h, "axis_names", tuple(f"ax{rng.randint(0, 9)}" for _ in range(h.ndim))), "axis_names=")
                else:
                    self.direct(h, lambda: h.meta_data.__setitem__("custom", rng.randint(0, 99)), "meta_data[...]=")
                self.note(f"direct meta edit on {type(h).__name__}")
                return
        except Exception as e:
            self.note(f"mutate {op} raised {type(e).__name__}: {str(e)[:60]}")
            return
        self.stats["mutations"] += 1
        self.note(f"mutate {op} on {type(h).__name__}{h.shape}:{h.dtype}")

    def direct(self, target, fn: Callable[[], Any], op: str):
        """An attribute assignment outside every wrapper, checked by the world monitor all the same."""
        from .attach import quiet

        rec = self.ctx.rec
        with quiet():
            pre = self.world.snapshot_all()
        exc = None
        try:
            fn()
        except Exception as e:
            exc = e
        with quiet():
            self.world.check(rec, op=op, pre=pre, targets=[target], result=None, exc=exc, operands=[], detail={"direct": True})

    # -- injected invalid calls ---------------------------------------------------------------------
    def fault(self):
        """An invalid call. (must_raise, description) - the world monitor checks atomicity if it raises;
        if the statement demands a refusal and none happens, that is recorded here."""
        import physt

        rng = self.rng
        h = self.pick()
        if h is None:
            return
        rec = self.ctx.rec
        kinds = ["iadd_incompatible", "iadd_other_dim", "iadd_nonhist", "iadd_array", "imul_negative", "imul_hist", "idiv_hist", "isub_more",
                 "fill_n_weight_shape", "fill_n_cols", "set_dtype_invalid", "set_dtype_lossy", "fill_bad_weight", "merge_bad_amount",
                 "mul_array", "rdiv", "array_after_free_block", "idiv_zero", "normalize_empty_inplace", "fill_weight_square_overflow", "isub_more_in_bins_only", "isub_missed_from_untracked", "free_scale_by_narrow_int_array"]
        if h.ndim >= 2:
            kinds += ["projection_bad", "select_bad", "fill_wrong_dim"]
            if h.is_adaptive() and all(len(np.asarray(b)) > 0 for b in h.bins):
                kinds += ["iadd_adaptive_other_width_last_axis"] * 3
        else:
            kinds += ["getitem_bad", "merge_gap"]
        k = rng.choice(kinds)
        must = True
        self.stats["faults"] += 1
        self.stats["fault/" + k] = self.stats.get("fault/" + k, 0) + 1
        raised = None
        try:
            with warnings.catch_warnings():
                warnings.simplefilter("ignore")
                if k == "iadd_incompatible":
                    if h.is_adaptive():
                        must = False
                    bins = [np.asarray(h.bins)] if h.ndim == 1 else [np.asarray(b) for b in h.bins]
                    if any(len(b) == 0 for b in bins):
                        return
                    # clearly incompatible: another bin count on every axis (the library's allclose tolerance never decides)
                    if h.ndim == 1:
                        o = physt.h1([0.0], np.linspace(bins[0][0, 0] - 3.3, bins[0][0, 0] + 0.77, len(bins[0]) + 2))
                    else:
                        o = physt.h(np.zeros((1, h.ndim)), [np.linspace(-7.7, 1.234, len(b) + 2) for b in bins])
                    h += o
                elif k == "iadd_adaptive_other_width_last_axis":
                    # an adaptive addend on the same grid along the first axes (elsewhere on it), of another bin width along the last one:
                    # refused as a whole - no axis of the target may have grown by then
                    bins = [np.asarray(b) for b in h.bins]
                    if float(h.missed) > 0:
                        must = False
                    widths = [float(b[0, 1] - b[0, 0]) for b in bins]
                    row = [float(b[-1, 1] + 3.5 * w_) for b, w_ in zip(bins, widths)]
                    o = physt.h(np.array([row]), "fixed_width", bin_width=widths[:-1] + [widths[-1] * 0.7], adaptive=True)
                    h += o
                elif k == "iadd_other_dim":
                    o = physt.h(np.zeros((1, h.ndim + 1)), [np.array([-1.0, 0.5, 1.0])] * (h.ndim + 1)) if h.ndim < 3 else physt.h1([0.0], np.array([-1.0, 1.0]))
                    h += o
                elif k == "iadd_nonhist":
                    h += rng.choice(["text", None, 3.5, {"a": 1}])
                elif k == "iadd_array":
                    h += np.ones(h.shape)
                elif k == "free_scale_by_narrow_int_array":
                    # under free arithmetics: an array of factors in a compact integer type whose squares leave that type - scaled as a
                    # whole (squared errors by the squares of the numbers) or refused as a whole
                    from physt.config import config as _cfg

                    must = False
                    if (int(np.prod(h.shape)) == 0 or float(np.max(np.abs(np.asarray(h.frequencies, dtype=float)), initial=0)) > 1e6
                            or float(np.max(np.asarray(h.errors2, dtype=float), initial=0)) > 1e7):
                        return  # (integer contents: the products stay far inside int64 - numpy's own wrap-around there is outside every statement)
                    adt = rng.choice([np.int16, np.int32])
                    big = 200 if adt is np.int16 else 50000
                    arr = np.ones(h.shape, dtype=adt)
                    arr.flat[0] = big
                    with attach.quiet():
                        e0_ = float(np.asarray(h.errors2, dtype=float).flat[0])
                        f0_ = float(np.asarray(h.frequencies, dtype=float).flat[0])
                    with _cfg.enable_free_arithmetics():
                        if rng.random() < 0.5:
                            h *= arr
                            want_f, want_e = f0_ * big, e0_ * big * big
                        else:
                            h /= arr
                            want_f, want_e = f0_ / big, e0_ / big / big
                    with attach.quiet():
                        got_e = float(np.asarray(h.errors2, dtype=float).flat[0])
                        got_f = float(np.asarray(h.frequencies, dtype=float).flat[0])
                        if not (math.isnan(e0_) or math.isnan(f0_)) and (abs(got_e - want_e) > 1e-9 * abs(want_e) + 1e-300 or abs(got_f - want_f) > 1e-9 * abs(want_f) + 1e-300):
                            rec.fail(prop="C18", monitor="C18.world.wellformed", op="*= / /= array (free arithmetics)", symptom="scaling by an array of compact integers: squared errors scaled by squares taken modulo the array's type",
                                     diff=["errors2"], detail={"array_dtype": np.dtype(adt).name, "factor": big, "errors2": got_e, "expected": want_e, "content": got_f, "expected_content": want_f})
                elif k == "mul_array":
                    _ = h * np.ones(h.shape)
                elif k == "isub_more_in_bins_only":
                    # the subtrahend holds more in the bins but less missed weight: refused for the bins, the missed weights stay too
                    ok_ = (h.ndim == 1 and h.keep_missed and not h.is_adaptive() and h.total > 0 and np.dtype(h.dtype).kind == "f"
                           and float(h.underflow) == float(h.underflow) and float(h.underflow) + float(h.overflow) > 0)
                    if not ok_:
                        return
                    o = h * 3
                    o.underflow = float(h.underflow) / 2
                    o.overflow = float(h.overflow) / 2
                    h -= o
                elif k == "isub_missed_from_untracked":
                    # the minuend does not track its missed values (its counters are zero), the subtrahend missed something: the
                    # difference would hold a negative missed weight - refused like any other negative content
                    if h.ndim != 1 or h.is_adaptive() or len(np.asarray(h.bins)) == 0:
                        return
                    a_ = h.copy()
                    a_.keep_missed = False
                    a_.underflow, a_.overflow = 0, 0
                    self.add(a_)
                    o = a_.copy()
                    o.keep_missed = True
                    o = o * 0
                    o.overflow = 2
                    if rng.random() < 0.5:
                        a_ -= o
                    else:
                        r_ = a_ - o
                        self.add(r_)
                elif k == "fill_weight_square_overflow":
                    # a weight that fits the content type while its square does not: refused as a whole or entered as a whole
                    must = False
                    v = self.values_for(h, 1)[0]
                    h.fill(float(v[0]) if h.ndim == 1 else v, rng.choice([2**32, 2**40, np.int64(2**32)]))
                elif k == "idiv_zero":
                    must = False  # inf / NaN contents or a refusal: either way nothing half done when it raises
                    h /= rng.choice([0, 0.0, np.float64(0.0), np.int32(0)])
                elif k == "normalize_empty_inplace":
                    must = False
                    e_ = h.copy(include_frequencies=False)
                    self.add(e_, sources=(h,))
                    e_.normalize(inplace=True)
                elif k == "array_after_free_block":
                    # a block with free arithmetics that is left by an exception: afterwards the strict rules hold again
                    from physt.config import config

                    try:
                        with config.enable_free_arithmetics():
                            if rng.random() < 0.5:
                                h *= h.copy()  # refused even inside the block
                            else:
                                h += np.ones(tuple(n + 1 for n in h.shape))  # wrong shape
                    except Exception:
                        pass
                    if rng.random() < 0.5:
                        h += np.ones(h.shape)
                    else:
                        h -= np.full(h.shape, 1e9)  # would make every content negative
                elif k == "rdiv":
                    _ = 2 / h
                elif k == "imul_negative":
                    h *= rng.choice([-1, -0.5, -2.0])
                elif k == "imul_hist":
                    h *= h.copy()
                elif k == "idiv_hist":
                    h /= h.copy()
                elif k == "isub_more":
                    if h.total <= 0 or h.is_adaptive():
                        must = False
                    h -= h * 3
                elif k == "fill_n_weight_shape":
                    v = self.values_for(h, 4, grow=h.is_adaptive() and rng.random() < 0.6)  # a refused batch may not leave the bins grown
                    h.fill_n(v[:, 0] if h.ndim == 1 else v, np.ones(3))
                elif k == "fill_n_cols":
                    h.fill_n(np.zeros((3, h.ndim + 1)))
                    must = h.ndim > 1  # a 1D histogram flattens any shape
                elif k == "set_dtype_invalid":
                    h.set_dtype(rng.choice(["complex128", "U3", "bool", "datetime64[s]"]))
                elif k == "set_dtype_lossy":
                    f = np.asarray(h.frequencies, dtype=float)
                    e = np.asarray(h.errors2, dtype=float)
                    target = rng.choice(["int16", "int16", "int32", "float16"])
                    info = np.iinfo(target) if target.startswith("int") else np.finfo(target)
                    frac = bool(np.any(f % 1) or np.any(e % 1)) and target.startswith("int")
                    big = bool(f.size and (f.max(initial=0) > info.max or e.max(initial=0) > info.max))
                    must = (frac or big) and np.dtype(h.dtype) != np.dtype(target) and not np.can_cast(h.dtype, target)
                    h.set_dtype(target)
                elif k == "fill_bad_weight":
                    v = self.values_for(h, 1)[0]
                    h.fill(float(v[0]) if h.ndim == 1 else v, rng.choice(["heavy", None, [1, 2]]))
                elif k == "merge_bad_amount":
                    must = False  # TypeError / ValueError either way; only atomicity matters
                    h.merge_bins(rng.choice([2.5, 0, -1, "2"]), inplace=True)
                elif k == "merge_gap":
                    b = np.asarray(h.bins)
                    gapped = len(b) > 1 and not np.array_equal(b[1:, 0], b[:-1, 1])
                    must = False
                    if gapped:
                        must = True
                        h.merge_bins(len(b), inplace=True)
                    else:
                        return
                elif k == "projection_bad":
                    which = rng.randrange(4)
                    if which == 0:
                        h.projection(h.ndim + 2)
                    elif which == 1:
                        h.projection(0, 0)
                    elif which == 2:
                        h.projection()
                    else:
                        h.projection("no_such_axis")
                elif k == "select_bad":
                    h.select(h.ndim + 1, 0)
                elif k == "fill_wrong_dim":
                    h.fill(np.zeros(h.ndim + 1))
                elif k == "getitem_bad":
                    which = rng.randrange(3)
                    if which == 0:
                        _ = h[h.shape[0] + 5]
                    elif which == 1:
                        _ = h[np.ones(h.shape[0] + 2, dtype=bool)]
                    else:
                        _ = h[::-1]
        except Exception as e:
            raised = e
        if raised is not None:
            self.stats["faults_raised"] += 1
        self.note(f"fault {k} -> {'raised ' + type(raised).__name__ if raised else 'accepted'}")
        rec.mon("C18.fault.refusal")
        if must and raised is None:
            rec.fail(prop="C18", monitor="C18.fault.refusal", op=k, symptom="invalid operation was not refused", diff=["not_refused"],
                     detail={"fault": k, "target": f"{type(h).__name__}{h.shape}:{h.dtype}", "history": self.log[-12:]})

    # -- the loop -----------------------------------------------------------------------------------
    def run(self, steps: int, weights: Dict[str, float]):
        names = list(weights)
        w = [weights[n] for n in names]
        for _ in range(self.rng.randint(1, 3)):
            self.create()
        for _ in range(steps):
            if not self.pop:
                self.create()
                continue
            k = self.rng.choices(names, w)[0]
            getattr(self, k)()
