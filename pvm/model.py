"""Independent executable reference models, written from the property statements.

Membership is decided by plain float comparisons on the edges the histogram itself reports
(`left <= v < right`, last bin closed where the statement says so).  Sums are exact
(`fractions.Fraction`) when the weights are small dyadic rationals, otherwise `math.fsum` with an
explicit error bound.
"""
from __future__ import annotations

import math
from fractions import Fraction
from typing import Dict, List, Optional, Sequence, Tuple

import numpy as np


def to_flat_float(data) -> Optional[np.ndarray]:
    """Independent flattening of a supported container into a float64 vector (C order)."""
    if data is None:
        return None
    try:
        import pandas as pd

        if isinstance(data, pd.Series):
            return np.asarray(data.to_numpy(dtype=float, na_value=np.nan), dtype=float).ravel()
    except Exception:
        pass
    try:
        import polars as pl

        if isinstance(data, pl.Series):
            return np.asarray(data.to_numpy(), dtype=float).ravel()
    except Exception:
        pass
    if isinstance(data, (list, tuple, np.ndarray)):
        try:
            return np.asarray(data, dtype=float).ravel()
        except Exception:
            return None
    return None


def exact_weights_ok(w: Optional[np.ndarray]) -> bool:
    """True if all sums of w and w**2 over any subset are exactly representable in float64."""
    if w is None:
        return True
    if w.size == 0:
        return True
    if not np.all(np.isfinite(w)):
        return False
    if np.any(np.abs(w) > 2**20) or w.size > 2**20:
        return False
    return bool(np.all((w * 64) % 1 == 0))


class Binned1D:
    __slots__ = ("freq", "err2", "underflow", "overflow", "gap", "total_weight", "nan_weight", "n_edge", "dest")


def bin_1d(bins: np.ndarray, values: Sequence[float], weights: Optional[Sequence[float]], *,
           last_closed: bool = True) -> Binned1D:
    """Count every value once: in the bin with left <= v < right (last bin also v == right)."""
    nb = len(bins)
    freq = [Fraction(0)] * nb
    err2 = [Fraction(0)] * nb
    under = over = gap = total = nanw = Fraction(0)
    lefts = [float(b[0]) for b in bins]
    rights = [float(b[1]) for b in bins]
    dest = set()
    for i, v in enumerate(values):
        w = Fraction(1) if weights is None else Fraction(float(weights[i]))
        v = float(v)
        if math.isnan(v):
            nanw += w
            dest.add("nan")
            continue
        total += w
        placed = False
        for k in range(nb):
            if lefts[k] <= v < rights[k] or (last_closed and k == nb - 1 and v == rights[k]):
                freq[k] += w
                err2[k] += w * w
                placed = True
                dest.add(("bin", k))
                break
        if placed:
            continue
        if nb and v < lefts[0]:
            under += w
            dest.add("under")
        elif nb and (v > rights[-1] or (not last_closed and v == rights[-1])):
            over += w
            dest.add("over")
        else:
            gap += w
            dest.add("gap")
    r = Binned1D()
    r.freq, r.err2, r.underflow, r.overflow, r.gap, r.total_weight, r.nan_weight = freq, err2, under, over, gap, total, nanw
    r.dest = dest
    return r


def bin_nd(bins_per_axis: List[np.ndarray], right_closed: List[bool], rows: np.ndarray,
           weights: Optional[Sequence[float]]):
    """Each row counted once in the cell whose every axis bin contains the coordinate."""
    shape = tuple(len(b) for b in bins_per_axis)
    freq: Dict[Tuple[int, ...], Fraction] = {}
    err2: Dict[Tuple[int, ...], Fraction] = {}
    missed = total = nanw = Fraction(0)
    stats = {"on_last_edge": 0, "outside": 0, "gap": 0, "nan": 0}
    for i in range(len(rows)):
        row = rows[i]
        w = Fraction(1) if weights is None else Fraction(float(weights[i]))
        if any(math.isnan(float(x)) for x in row):
            nanw += w
            stats["nan"] += 1
            continue
        total += w
        idx = []
        for ax, x in enumerate(row):
            x = float(x)
            b = bins_per_axis[ax]
            found = None
            nb = len(b)
            for k in range(nb):
                l, r = float(b[k][0]), float(b[k][1])
                if l <= x < r or (k == nb - 1 and x == r and right_closed[ax]):
                    found = k
                    break
            if nb and x == float(b[nb - 1][1]):
                stats["on_last_edge"] += 1
            if found is None:
                idx = None
                if nb and (x < float(b[0][0]) or x >= float(b[nb - 1][1])):
                    stats["outside"] += 1
                else:
                    stats["gap"] += 1
                break
            idx.append(found)
        if idx is None:
            missed += w
        else:
            t = tuple(idx)
            freq[t] = freq.get(t, Fraction(0)) + w
            err2[t] = err2.get(t, Fraction(0)) + w * w
    return shape, freq, err2, missed, total, nanw, stats


def frac_array(fr: Sequence[Fraction]) -> np.ndarray:
    return np.array([float(x) for x in fr], dtype=float)


def dense(shape, d: Dict[Tuple[int, ...], Fraction]) -> np.ndarray:
    out = np.zeros(shape, dtype=float)
    for k, v in d.items():
        out[k] = float(v)
    return out


def stats_model(values: Sequence[float], weights: Optional[Sequence[float]]):
    """Σw, Σwv, Σwv², min, max of the values (math.fsum)."""
    vs = [float(v) for v in values]
    ws = [1.0] * len(vs) if weights is None else [float(w) for w in weights]
    W = math.fsum(ws)
    S = math.fsum(w * v for w, v in zip(ws, vs))
    S2 = math.fsum(w * v * v for w, v in zip(ws, vs))
    absS = math.fsum(abs(w * v) for w, v in zip(ws, vs))
    absS2 = math.fsum(abs(w * v * v) for w, v in zip(ws, vs))
    mn = min(vs) if vs else math.inf
    mx = max(vs) if vs else -math.inf
    return {"weight": W, "sum": S, "sum2": S2, "min": mn, "max": mx, "abs_sum": absS, "abs_sum2": absS2, "abs_weight": math.fsum(abs(w) for w in ws)}


def close(a: float, b: float, scale: float, rel: float = 1e-9) -> bool:
    if math.isnan(a) and math.isnan(b):
        return True
    if math.isinf(a) or math.isinf(b):
        return a == b
    return abs(a - b) <= rel * max(scale, abs(a), abs(b)) + 1e-300


def ulps(x: float) -> float:
    return float(np.spacing(abs(x))) if math.isfinite(x) and x != 0 else 5e-324
