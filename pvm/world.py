"""World monitor: registry of live histograms + checks around every depth-0 public call.

Around each observed public call (wrapper installed by `attach_world`, or an explicit
`World.direct(...)` for plain attribute assignments) every registered histogram is snapshotted
before and after, then:

  C12  every object other than the declared mutation target is bit-identical afterwards
       (derivations must not touch their sources, mutations must not reach relatives);
  C18  target, result and operands are well-formed (shapes, errors2 >= 0, contents >= 0 with
       free arithmetics off); after a raise the target's contents per interval, errors2 and
       missed values are numerically what they were (lossless dtype promotion allowed);
  C13  dtype == frequencies.dtype == errors2.dtype for every object touched.

Lessons from the design prototype: compare objects by identity (Histogram1D.__eq__ raises on
different bin counts); report an ill-formed / changed bystander only at the call that made it so
and then retire it (its state is re-baselined by the next pre-snapshot anyway).
"""
from __future__ import annotations

import weakref
from typing import Any, Callable, Dict, List, Optional, Set, Tuple

import numpy as np

from . import core, snapshot as snap
from .attach import Call, Handler, quiet, wrap

MUTATORS = {"fill", "fill_n", "__iadd__", "__isub__", "__imul__", "__itruediv__", "__lshift__", "set_dtype", "set_adaptive"}
INPLACE_FLAG = {"merge_bins", "normalize", "partial_normalize"}
DERIVERS = {"copy", "__add__", "__radd__", "__sub__", "__mul__", "__rmul__", "__truediv__", "normalize", "merge_bins", "projection",
            "select", "__getitem__", "T", "partial_normalize", "accumulate", "to_dict", "to_json", "find_bin"}


def is_hist(x) -> bool:
    try:
        from physt.histogram_base import HistogramBase

        return isinstance(x, HistogramBase)
    except Exception:
        return False


class World:
    def __init__(self, *, max_population: int = 12, passive: bool = False):
        self.refs: List[weakref.ref] = []
        self.max_population = max_population
        self.passive = passive
        self.group: Dict[int, int] = {}  # id(h) -> provenance component
        self._next_group = 0
        self.retired: Set[int] = set()

    # -- registry -----------------------------------------------------------------------------
    def register(self, h, sources: Tuple[Any, ...] = ()):
        if not is_hist(h):
            return
        if any(r() is h for r in self.refs):
            ident = id(h)
        else:
            self.refs.append(weakref.ref(h))
            ident = id(h)
            if len(self.refs) > self.max_population:
                self.refs = self.refs[-self.max_population:]
        g = None
        for s in sources:
            if is_hist(s) and id(s) in self.group:
                g = self.group[id(s)] if g is None else g
        if g is None:
            g = self.group.get(ident)
        if g is None:
            self._next_group += 1
            g = self._next_group
        self.group[ident] = g
        for s in sources:
            if is_hist(s):
                old = self.group.get(id(s))
                if old is not None and old != g:
                    for k, v in list(self.group.items()):
                        if v == old:
                            self.group[k] = g
                else:
                    self.group[id(s)] = g

    def live(self) -> List[Any]:
        out = []
        keep = []
        for r in self.refs:
            h = r()
            if h is not None:
                out.append(h)
                keep.append(r)
        self.refs = keep
        return out

    def forget(self, h):
        self.refs = [r for r in self.refs if r() is not None and r() is not h]

    def clear(self):
        self.refs = []
        self.group = {}

    # -- snapshots ----------------------------------------------------------------------------
    def snapshot_all(self) -> Dict[int, Tuple[Any, Dict[str, Any]]]:
        out = {}
        for h in self.live():
            try:
                out[id(h)] = (h, snap.snapshot(h))
            except Exception as e:
                out[id(h)] = (h, {"unreadable": f"{type(e).__name__}: {str(e)[:80]}"})
        return out

    # -- the check ----------------------------------------------------------------------------
    def check(self, rec: core.Recorder, *, op: str, pre: Dict[int, Tuple[Any, dict]], targets: List[Any], result: Any,
              exc: Optional[BaseException], operands: List[Any], detail: Optional[dict] = None, free_arith: bool = False,
              negative_weights: bool = False):
        rec.mon("world.check")
        detail = dict(detail or {})
        detail["op"] = op
        target_ids = {id(t) for t in targets}
        post_cache: Dict[int, dict] = {}

        def post_of(h):
            if id(h) not in post_cache:
                try:
                    post_cache[id(h)] = snap.snapshot(h)
                except Exception as e:
                    post_cache[id(h)] = {"unreadable": f"{type(e).__name__}: {str(e)[:80]}"}
            return post_cache[id(h)]

        # C12: bystanders (and sources of derivations) bit-identical
        rec.mon("C12.world.independence")
        for ident, (h, before) in pre.items():
            if ident in target_ids:
                continue
            if "unreadable" in before:
                continue
            after = post_of(h)
            d = snap.diff(before, after)
            if d:
                related = (not self.passive) or any(self.group.get(ident) is not None and self.group.get(ident) == self.group.get(id(t)) for t in (targets or operands))
                if not related:
                    rec.skip("C12.world.independence", "unrelated_pair")
                    continue
                role = "operand" if any(h is o for o in operands) else "bystander"
                rec.fail(prop="C12", monitor="C12.world.independence", op=op,
                         symptom=(f"{role} changed by an operation that {'raised' if exc else 'does not target it'}"),
                         diff=sorted(d), detail={**detail, "role": role, "before": _brief(before), "after": _brief(after)})
        # C18 / C13 on everything touched
        touched = list(targets) + [o for o in operands if is_hist(o)] + ([result] if is_hist(result) else [])
        seen = set()
        for h in touched:
            if id(h) in seen:
                continue
            seen.add(id(h))
            rec.mon("C18.world.wellformed")
            before = pre.get(id(h), (None, None))[1]
            was_bad = False
            if before is not None and "unreadable" not in before:
                was_bad = bool(before.get("_problems"))
            probs = snap.wellformed_problems(h)
            if not free_arith and not negative_weights and not probs:
                f = np.asarray(h.frequencies)
                with np.errstate(invalid="ignore"):
                    if f.size and np.any(f < 0):
                        probs.append("negative contents with free arithmetics off")
            if probs and not was_bad:
                rec.fail(prop="C18", monitor="C18.world.wellformed", op=op, symptom="histogram ill-formed after a public operation",
                         diff=["wellformed"], detail={**detail, "problems": probs, "raised": type(exc).__name__ if exc else None,
                                                      "role": "target" if id(h) in target_ids else "result/operand"})
            rec.mon("C13.world.dtype")
            dp = snap.dtype_problems(h) if not probs else []
            if dp:
                rec.fail(prop="C13", monitor="C13.world.dtype", op=op, symptom="reported dtype differs from the element type of the arrays",
                         diff=["dtype"], detail={**detail, "problems": dp})
        # C18 atomicity
        if exc is not None:
            for t in targets:
                before = pre.get(id(t), (None, None))[1]
                if before is None or "unreadable" in before:
                    continue
                rec.mon("C18.world.atomicity")
                after = post_of(t)
                d = atomic_diff(before, after)
                if d:
                    mech = None
                    # known finding D01: a gapped 1D histogram with integer contents cannot store the "unknown" (NaN) under/overflow
                    # markers; fill / fill_n raise on that assignment after the contents were added
                    try:
                        if (before.get("class") and "underflow" in before and np.dtype(before["dtype"]).kind in "iu" and isinstance(exc, ValueError) and "NaN" in str(exc)
                                and op.rsplit(".", 1)[-1] in ("fill", "fill_n")):
                            b = snap.arr_values(before["bins"][0])
                            if len(b) > 1 and not np.array_equal(b[1:, 0], b[:-1, 1]):
                                mech = "1d.gap.int_dtype.nan_missed"
                    except Exception:
                        mech = None
                    rec.fail(prop="C18", monitor="C18.world.atomicity", op=op, mechanism=mech,
                             symptom=f"operation raised {type(exc).__name__} but the histogram was changed",
                             diff=sorted(d), detail={**detail, "error": str(exc)[:160], "before": _brief(before), "after": _brief(after)})


def _brief(s: dict) -> dict:
    out = {}
    for k, v in s.items():
        if isinstance(v, tuple) and len(v) == 3 and isinstance(v[2], bytes):
            a = snap.arr_values(v)
            out[k] = {"dtype": v[0], "shape": list(v[1]), "values": a.ravel()[:24].tolist()}
        elif k == "bins" and isinstance(v, list):
            out[k] = [snap.arr_values(t).tolist()[:8] for t in v]
        else:
            out[k] = v
    return out


def atomic_diff(before: dict, after: dict) -> Set[str]:
    """What a failed operation may not change: content per bin interval, errors2, missed values.
    A lossless dtype promotion and added empty bins are allowed (statement of C18)."""
    d: Set[str] = set()
    if "unreadable" in after:
        return {"unreadable"}
    ma, mb = snap.interval_map(before), snap.interval_map(after)
    if ma is None or mb is None:
        if ma != mb:
            d.add("frequencies")
    else:
        if {k: v[0] for k, v in ma.items()} != {k: v[0] for k, v in mb.items()}:
            d.add("frequencies")
        if {k: v[1] for k, v in ma.items()} != {k: v[1] for k, v in mb.items()}:
            d.add("errors2")
    for k in ("underflow", "overflow", "inner_missed", "missed"):
        if k in before and before[k] != after.get(k):
            d.add(k)
    return d


# ---------------------------------------------------------------------------------------------
# wrappers


class WorldHandler(Handler):
    name = "world"

    def __init__(self, world: World, method: str):
        self.world = world
        self.method = method

    def before(self, call: Call):
        if call.depth != 0:
            call.bag["wskip"] = True
            return
        h = call.self
        if not is_hist(h):
            call.bag["wskip"] = True
            return
        self.world.register(h)
        for a in list(call.args[1:]) + list(call.kwargs.values()):
            if is_hist(a):
                self.world.register(a)
        call.bag["wpre"] = self.world.snapshot_all()
        try:
            from physt.config import config

            call.bag["wfree"] = bool(config.free_arithmetics)
        except Exception:
            call.bag["wfree"] = False

    def after(self, call: Call):
        if call.bag.get("wskip"):
            return
        rec = core.recorder()
        h = call.self
        m = self.method
        inplace = m in MUTATORS or (m in INPLACE_FLAG and bool(call.kwargs.get("inplace", False) or (m == "merge_bins" and len(call.args) > 4 and call.args[4])
                                                                or (m == "normalize" and len(call.args) > 1 and call.args[1])
                                                                or (m == "partial_normalize" and len(call.args) > 2 and call.args[2])))
        operands = [a for a in list(call.args[1:]) + list(call.kwargs.values()) if is_hist(a)]
        targets = [h] if inplace else []
        if not inplace:
            operands = [h] + operands
        negw = False
        if m in ("fill", "fill_n"):
            w = call.args[2] if len(call.args) > 2 else call.kwargs.get("weight", call.kwargs.get("weights"))
            try:
                negw = w is not None and bool(np.any(np.asarray(w, dtype=float) < 0))
            except Exception:
                negw = True
        result = call.result
        if is_hist(result) and result is not h:
            self.world.register(result, sources=tuple(operands) + tuple(targets))
        self.world.check(rec, op=call.qualname, pre=call.bag["wpre"], targets=targets, result=result, exc=call.exc,
                         operands=operands, free_arith=call.bag.get("wfree", False), negative_weights=negw,
                         detail={"args": _args_brief(call.args[1:], call.kwargs)})


def _args_brief(args, kwargs) -> str:
    def one(a):
        if is_hist(a):
            return f"<{type(a).__name__} {a.shape} {a.dtype}>"
        if isinstance(a, np.ndarray):
            return f"array{a.shape}:{a.dtype}" + (f"={a.ravel()[:6].tolist()}" if a.size <= 12 else "")
        return repr(a)[:60]

    return ", ".join([one(a) for a in args] + [f"{k}={one(v)}" for k, v in kwargs.items()])


def attach_world(world: World):
    from physt.histogram1d import Histogram1D
    from physt.histogram_base import HistogramBase
    from physt.histogram_nd import Histogram2D, HistogramND

    names = sorted(MUTATORS | INPLACE_FLAG | DERIVERS)
    for cls in (HistogramBase, Histogram1D, HistogramND, Histogram2D):
        for n in names:
            if n in cls.__dict__:
                wrap(cls, n, WorldHandler(world, n))
    try:
        from physt import special_histograms as sp

        for cname in ("TransformedHistogramMixin", "CylindricalHistogram"):
            cls = getattr(sp, cname, None)
            if cls is None:
                continue
            for n in names:
                if n in cls.__dict__:
                    wrap(cls, n, WorldHandler(world, n))
    except Exception:
        pass



def register_all_new(world: World):
    """Passive mode: every histogram constructed anywhere joins the population."""
    from physt.histogram_base import HistogramBase

    class Reg(Handler):
        name = "world.register"

        def after(self, call: Call):
            if call.exc is None and is_hist(call.self):
                world.register(call.self)

    wrap(HistogramBase, "__init__", Reg())
