"""Seeded hostile-input generators shared by all workloads.

All randomness comes from a `random.Random` handed in by the caller (per-case RNG, see
core.case_rng), so a case is reproducible from (seed, shard, index).
"""
from __future__ import annotations

import math
import random
from typing import List, Optional, Sequence, Tuple

import numpy as np

MAX_BINS_SPAN = 5000  # far values never force more than this many bins


def hexlist(values) -> List[str]:
    return [float(v).hex() if not (isinstance(v, float) and math.isnan(v)) else "nan" for v in np.asarray(values, dtype=float).ravel().tolist()]


def unhex(items) -> List[float]:
    return [float("nan") if s == "nan" else float.fromhex(s) for s in items]


def ulp_neighbours(x: float) -> List[float]:
    return [float(np.nextafter(x, -np.inf)), float(x), float(np.nextafter(x, np.inf))]


# ---------------------------------------------------------------------------------------------
# bin edges

WIDTH_POOL = [0.1, 0.2, 0.3, 0.7, 1.0, 2.5, 1e-3, 1 / 3, 3.3, 0.5, 0.25, 2.0, 10.0, 1e3, 0.05, 1e-5]
OFFSET_POOL = [0.0, 0.0, 0.0, 1.0, -1.0, 0.5, 1.7, -3.3, 100.0, -250.0, 1e4, 1e7, -1e7, 12345.678]


def regular_edges(rng: random.Random, nbins: Optional[int] = None) -> List[float]:
    n = nbins or rng.randint(1, 12)
    w = rng.choice(WIDTH_POOL) if rng.random() < 0.7 else 10 ** rng.uniform(-6, 6)
    off = rng.choice(OFFSET_POOL) if rng.random() < 0.8 else rng.uniform(-1e3, 1e3)
    if w * 1e9 < abs(off):  # keep edges distinguishable by many ulps
        off = 0.0
    mode = rng.randrange(3)
    if mode == 0:
        return [off + i * w for i in range(n + 1)]
    if mode == 1:
        return list(np.linspace(off, off + n * w, n + 1).tolist())
    e = [off]
    for _ in range(n):
        e.append(e[-1] + w)
    return e


def irregular_edges(rng: random.Random, nbins: Optional[int] = None) -> List[float]:
    n = nbins or rng.randint(1, 12)
    scale = 10 ** rng.uniform(-4, 5) if rng.random() < 0.5 else 1.0
    off = rng.choice(OFFSET_POOL) if rng.random() < 0.5 else 0.0
    if scale * 1e9 < abs(off):
        off = 0.0
    e = [off]
    for _ in range(n):
        step = rng.choice([0.1, 0.25, 0.5, 1, 1.5, 2, 3, 7.7, 0.01]) * scale if rng.random() < 0.6 else rng.uniform(0.01, 5) * scale
        nxt = e[-1] + step
        if not nxt > e[-1]:
            nxt = float(np.nextafter(e[-1], np.inf))
        e.append(nxt)
    return e


def edges(rng: random.Random, nbins: Optional[int] = None) -> List[float]:
    return regular_edges(rng, nbins) if rng.random() < 0.5 else irregular_edges(rng, nbins)


def pairs_from_edges(e: Sequence[float]) -> List[List[float]]:
    return [[e[i], e[i + 1]] for i in range(len(e) - 1)]


def gapped_pairs(rng: random.Random, nbins: Optional[int] = None) -> List[List[float]]:
    """Rising bins with at least one clearly visible gap (never within allclose tolerance)."""
    n = nbins or rng.randint(2, 10)
    e = edges(rng, 2 * n)  # 2n+1 edges -> choose which intervals are bins
    intervals = pairs_from_edges(e)
    keep = [True] * len(intervals)
    # drop between 1 and n intervals in the interior
    interior = list(range(1, len(intervals) - 1))
    rng.shuffle(interior)
    ndrop = rng.randint(1, max(1, min(len(interior), n)))
    for i in interior[:ndrop]:
        keep[i] = False
    out = [iv for iv, k in zip(intervals, keep) if k]
    # make sure the gap is clearly visible relative to the allclose tolerance of physt (rtol 1e-5, atol 1e-8)
    ok = []
    for iv in out:
        ok.append(iv)
    has_gap = any(ok[i][1] != ok[i + 1][0] for i in range(len(ok) - 1))
    if not has_gap:
        return gapped_pairs(rng, nbins)
    for i in range(len(ok) - 1):
        a, b = ok[i][1], ok[i + 1][0]
        if a != b and abs(b - a) <= 1e-3 * max(abs(a), abs(b)) + 1e-6:
            return gapped_pairs(rng, nbins)  # gap too small to be unambiguous, retry
    return ok


def tiny_gapped_pairs(rng: random.Random, nbins: Optional[int] = None) -> List[List[float]]:
    """Rising bins with real gaps that are tiny relative to the edge magnitude (far below numpy's allclose tolerance):
    epoch-like offsets with gaps of a few units, or gaps of a few ulps. Exact comparisons still call them gaps."""
    n = nbins or rng.randint(2, 6)
    off = rng.choice([1e6, 1.7e9, 3e7, 1.0, 100.0])
    w = rng.choice([1.0, 0.5, 10.0])
    pairs = []
    x = off
    for i in range(n):
        pairs.append([x, x + w])
        gap = rng.choice([0.0, w * 1e-3, float(np.spacing(x + w)) * rng.choice([1, 4, 64]), w * 0.25])
        x = x + w + gap
        if not x > pairs[-1][1] and gap:
            x = float(np.nextafter(pairs[-1][1], np.inf))
    if is_consecutive_pairs(pairs):
        pairs[-1][0] = float(np.nextafter(pairs[-1][0], np.inf)) if len(pairs) > 1 else pairs[-1][0]
    return pairs


def is_consecutive_pairs(pairs) -> bool:
    return all(pairs[i][1] == pairs[i + 1][0] for i in range(len(pairs) - 1))


# ---------------------------------------------------------------------------------------------
# data for given bins


def data_for_bins(rng: random.Random, pairs: Sequence[Sequence[float]], n: int, *, nan_ok: bool = False,
                  outside: bool = True, edge_bias: float = 0.35) -> List[float]:
    """Values aimed at the bin boundaries: on every edge, one ulp beside, inside, in gaps, far outside."""
    lo, hi = pairs[0][0], pairs[-1][1]
    span = hi - lo
    all_edges = sorted({p[0] for p in pairs} | {p[1] for p in pairs})
    out: List[float] = []
    for _ in range(n):
        r = rng.random()
        if r < edge_bias:
            x = rng.choice(all_edges)
            out.append(rng.choice(ulp_neighbours(x)))
        elif r < 0.75:
            p = rng.choice(pairs)
            out.append(rng.uniform(p[0], p[1]))
        elif r < 0.80 and len(pairs) > 1:
            i = rng.randrange(len(pairs) - 1)  # possibly a gap
            a, b = pairs[i][1], pairs[i + 1][0]
            out.append((a + b) / 2 if a != b else a)
        elif outside:
            side = rng.random()
            far = rng.choice([0.5 * span, 3 * span, 1e3 * span + 1, abs(lo) + abs(hi) + 1])
            out.append(lo - far if side < 0.5 else hi + far)
        else:
            out.append(rng.uniform(lo, hi))
    if out and rng.random() < 0.5:  # duplicates
        for _ in range(rng.randint(1, max(1, n // 4))):
            out[rng.randrange(len(out))] = rng.choice(out)
    if nan_ok and out and rng.random() < 0.6:
        for _ in range(rng.randint(1, max(1, n // 5))):
            out[rng.randrange(len(out))] = float("nan")
    return out


WEIGHT_KINDS = ["none", "none", "int", "dyadic", "dyadic", "ones", "zeros_some"]


def weights(rng: random.Random, n: int, kind: Optional[str] = None):
    """Weights whose sums and sums of squares are exactly representable (k/8, small)."""
    kind = kind or rng.choice(WEIGHT_KINDS)
    if kind == "none":
        return None, kind
    if kind == "int":
        return [rng.randint(0, 9) for _ in range(n)], kind
    if kind == "ones":
        return [1] * n, kind
    if kind == "zeros_some":
        return [rng.choice([0.0, 0.5, 2.0]) for _ in range(n)], kind
    return [rng.randint(0, 40) / 8.0 for _ in range(n)], kind


def is_edge_adjacent(v: float, all_edges: Sequence[float]) -> bool:
    for e in all_edges:
        if v == e or v == np.nextafter(e, np.inf) or v == np.nextafter(e, -np.inf):
            return True
    return False


def shaped(rng: random.Random, values: List[float]):
    """Return the values in one of the container/shape classes h1 accepts (same flattened order)."""
    kind = rng.choice(["list", "array", "tuple", "array2d", "array2d_F", "array2d_T", "f32ok", "iter", "list_none", "object", "named"])
    arr = np.asarray(values, dtype=float)
    if kind == "named":  # the (name, values) pair form (e.g. an item of a pandas groupby)
        return ("label", arr.copy()), kind
    if kind == "list_none":  # missing values written as None (plain python table column)
        return [None if (isinstance(v, float) and math.isnan(v)) else v for v in values], kind
    if kind == "object":  # object array holding floats (and NaN)
        return np.array(list(values), dtype=object), kind
    if kind == "list":
        return list(values), kind
    if kind == "tuple":
        return tuple(values), kind
    if kind == "array2d" and len(values) >= 4 and len(values) % 2 == 0:
        return arr.reshape(2, -1), kind
    if kind in ("array2d_F", "array2d_T") and len(values) >= 4 and len(values) % 2 == 0:
        # the same logical (2, n/2) array in another memory layout: Fortran order, or a transposed view of a (n/2, 2) buffer
        a2 = arr.reshape(2, -1)
        return (np.asfortranarray(a2) if kind == "array2d_F" else np.ascontiguousarray(a2.T).T), kind
    if kind == "iter":
        return iter(list(values)), kind
    return arr, "array"


def touch_binning(rng: random.Random, binning, p: float = 0.5) -> bool:
    """Read some of the public representations / predicates of a binning object before it is used (again).
    Reading never changes what the object means: results computed afterwards must be the same as on a fresh object
    (caches filled by a tolerant predicate or an edge representation must not leak into exact decisions)."""
    if binning is None or rng.random() >= p:
        return False
    for name in rng.sample(["numpy_bins", "bins", "is_consecutive", "is_regular", "bin_count", "first_edge", "last_edge", "numpy_bins_with_mask", "is_adaptive"], rng.randint(1, 5)):
        try:
            v = getattr(binning, name)
            if callable(v):
                v()
        except Exception:
            pass
    return True


def narrow_weights(rng: random.Random, wts, p: float = 0.25):
    """The same weights as an array of a narrow element type in which every single weight is exactly representable
    (int8 .. int32, uint8, uint16, float32, float16): sums and squares of the weights are numbers, not elements of that type.
    Returns (array or None, dtype name or None); None when not chosen / not representable."""
    if wts is None or len(wts) == 0 or rng.random() >= p:
        return None, None
    a = np.asarray(wts)
    if a.dtype.kind in "iub" or (a.dtype.kind == "f" and np.all(a == np.floor(a))):
        cands = [dt for dt in ("int8", "uint8", "int16", "uint16", "int32") if a.min() >= np.iinfo(dt).min and a.max() <= np.iinfo(dt).max]
        if a.dtype.kind == "f":
            cands = []  # float-valued integers stay floats (an integer histogram would be a different case)
    else:
        cands = []
    if a.dtype.kind == "f":
        for dt in ("float32", "float16"):
            with np.errstate(all="ignore"):
                if np.array_equal(a.astype(dt).astype(float), a.astype(float)):
                    cands.append(dt)
    if not cands:
        return None, None
    dt = rng.choice(cands)
    return a.astype(dt), dt
