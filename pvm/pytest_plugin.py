"""Runs the repository's own tests with the passive monitors of one property attached.

Active only when PHYST_VERIF=1 (the guard recorded in MANIFEST.hooks): with the guard off nothing of pvm is
imported by the repository's tests and the suite is the untouched baseline.

    PHYST_VERIF=1 PVM_PROP=C03 PVM_OUT=/path/out.json python -m pytest -p pvm.pytest_plugin tests
"""
from __future__ import annotations

import os
import time

_state = {}


def pytest_configure(config):
    if os.environ.get("PHYST_VERIF") != "1" or not os.environ.get("PVM_PROP"):
        return
    import importlib
    import warnings

    from pvm import core

    prop = os.environ["PVM_PROP"]
    rec = core.Recorder(prop)
    core.set_recorder(rec)
    rec.current_case = {"prop": prop, "source": "repository tests under passive monitors"}
    import physt  # noqa: F401

    rec.notes["physt_path"] = os.path.dirname(physt.__file__)
    mod = importlib.import_module(f"pvm.props.{prop}")
    try:
        from hypothesis import settings

        settings.register_profile("pvm", database=None)  # never write examples into the repository's .hypothesis directory
        settings.load_profile("pvm")
    except Exception:
        pass
    attach = getattr(mod, "attach_passive", None) or getattr(mod, "attach_monitors")
    attach()
    _state.update(rec=rec, t0=time.time(), prop=prop)


def pytest_runtest_setup(item):
    rec = _state.get("rec")
    if rec is not None:
        rec.current_case = {"prop": _state["prop"], "source": "repository tests under passive monitors", "test": item.nodeid}


def pytest_sessionfinish(session, exitstatus):
    rec = _state.get("rec")
    if rec is None:
        return
    from pathlib import Path

    from pvm import core

    n = sum(rec.monitor_evals.values())
    rec.evaluations += 0
    rec.notes["passive_monitor_evaluations_under_tests"] = n
    rec.notes["pytest_exitstatus"] = int(exitstatus)
    rec.notes["pytest_wall_s"] = round(time.time() - _state["t0"], 1)
    core.write_json(Path(os.environ["PVM_OUT"]), rec.to_json())
