"""Tiers, sharding, watchdogs, verdict, evidence, replay.

    ./check C07 --tier quick|thorough [--seed N] [--replay FILE]

Parent process: starts N shard children (`subprocess.run(timeout=...)`, never a Pool), merges
their recorder dumps, classifies failure records against known_findings.json, writes
evidence/<id>.json and replays/<id>/*.json, prints the verdict lines and sets the exit code:

    0  held on everything observed (KNOWN-FINDING lines for listed defects)
    1  VIOLATION property=<id> replay=<path>      (an oracle failed on something not listed)
    2  INCONCLUSIVE property=<id> reason=...      (deciding monitor not reached, too few
                                                   non-trivial cases, watchdog, import failure)
"""
from __future__ import annotations

import argparse
import importlib
import json
import os
import subprocess
import sys
import tempfile
import time
import traceback
from concurrent.futures import ThreadPoolExecutor
from pathlib import Path
from typing import Any, Callable, Dict, List, Optional

from . import core

ROOT = core.ROOT
PY = sys.executable

TIERS = {
    "quick": {"shards": 4, "floor": 100, "watchdog_s": 420},
    "thorough": {"shards": 16, "floor": 2000, "watchdog_s": 3600},
}


class Ctx:
    def __init__(self, prop: str, tier: str, seed: int, shard: int, nshards: int, replay: Optional[dict] = None):
        self.prop = prop
        self.tier = tier
        self.seed = seed
        self.shard = shard
        self.nshards = nshards
        self.rec = core.Recorder(prop)
        self.replay = replay
        self.quick = tier == "quick"

    def scale(self, quick: int, thorough: int) -> int:
        """Per-shard number of cases for the tier."""
        return quick if self.quick else thorough

    def run_cases(self, n: int, fn: Callable[["Ctx", int, Any], None], salt: str = ""):
        """Run fn(ctx, index, rng) for n cases (or only the replayed one)."""
        indices = range(n)
        if self.replay is not None:
            if self.replay.get("salt", "") != salt:
                return
            indices = [int(self.replay["index"])]
        for i in indices:
            rng = core.case_rng(self.seed, self.shard, i, salt)
            self.rec.current_case = {"prop": self.prop, "tier": self.tier, "seed": self.seed, "shard": self.shard,
                                     "nshards": self.nshards, "index": i, "salt": salt}
            try:
                fn(self, i, rng)
            except Exception as e:  # a bug of the workload itself: inconclusive event, never a violation
                self.rec.monitor_error(f"workload[{salt}]", e)
        self.rec.current_case = None


def load_prop(prop: str):
    return importlib.import_module(f"pvm.props.{prop}")


# ---------------------------------------------------------------------------------------------
# child


def shard_main(args) -> int:
    out = Path(args.out)
    replay = json.loads(Path(args.replay_case).read_text()) if args.replay_case else None
    ctx = Ctx(args.prop, args.tier, args.seed, args.shard, args.nshards, replay)
    core.set_recorder(ctx.rec)
    t0 = time.time()
    try:
        import warnings

        warnings.simplefilter("ignore")
        import numpy as np

        np.seterr(all="ignore")
        import physt  # noqa: F401

        ctx.rec.notes["physt_path"] = os.path.dirname(physt.__file__)
        mod = load_prop(args.prop)
        from . import reach

        reach_on = reach.install(os.path.dirname(physt.__file__)) if not getattr(mod, "NO_REACH", False) else False
        try:
            mod.run(ctx)
        finally:
            if reach_on:
                rep = reach.report(args.prop)
                reach.uninstall()
                ctx.rec.notes["anchor_reach_shard0" if args.shard == 0 else "anchor_reach_other"] = rep["functions_entered_per_anchor_range"]
                ctx.rec.notes["anchor_ranges"] = rep["anchor_ranges"] if args.shard == 0 else 0
                ctx.rec.notes["functions_entered_in_physt"] = {str(args.shard): rep["functions_entered_in_physt"]}
    except Exception as e:
        ctx.rec.inconclusive.append(f"shard {args.shard} crashed: {type(e).__name__}: {e}")
        ctx.rec.monitor_error("shard", e)
    ctx.rec.notes["shard_wall_s"] = {str(args.shard): round(time.time() - t0, 2)}
    core.write_json(out, ctx.rec.to_json())
    return 0


# ---------------------------------------------------------------------------------------------
# parent


def _run_child(cmd: List[str], timeout: float, env: dict, cwd: Optional[str] = None) -> Dict[str, Any]:
    t0 = time.time()
    try:
        p = subprocess.run(cmd, timeout=timeout, env=env, cwd=cwd or str(ROOT), capture_output=True, text=True)
        return {"rc": p.returncode, "stdout": p.stdout[-4000:], "stderr": p.stderr[-4000:], "wall": time.time() - t0, "timeout": False}
    except subprocess.TimeoutExpired as e:
        return {"rc": None, "stdout": "", "stderr": str(e)[-1000:], "wall": time.time() - t0, "timeout": True}


def child_env() -> dict:
    env = dict(os.environ)
    pp = env.get("PYTHONPATH", "")
    parts = [p for p in pp.split(os.pathsep) if p]
    if str(ROOT) not in parts:
        parts.append(str(ROOT))
    env["PYTHONPATH"] = os.pathsep.join(parts)
    env.setdefault("PYTHONHASHSEED", "0")
    env["MPLBACKEND"] = "Agg"
    env["PHYST_VERIF"] = "1"
    env.pop("PHYST_FREE_ARITHMETICS", None)
    env["OMP_NUM_THREADS"] = "1"
    env["OPENBLAS_NUM_THREADS"] = "1"
    env["POLARS_MAX_THREADS"] = "2"
    return env


def parent_main(args) -> int:
    prop = args.prop
    tier = args.tier or os.environ.get("VERIF_TIER") or "quick"
    if tier not in TIERS:
        tier = "quick"
    seed = args.seed if args.seed is not None else int(os.environ.get("VERIF_SEED", "0") or 0)
    cfg = dict(TIERS[tier])
    mod = load_prop(prop)
    cfg.update(getattr(mod, "TIER_OVERRIDES", {}).get(tier, {}))
    nshards = cfg["shards"]
    t0 = time.time()
    work = Path(tempfile.mkdtemp(prefix=f"pvm_{prop}_", dir=str(_workdir())))
    env = child_env()
    replay_case = None
    if args.replay:
        rep = json.loads(Path(args.replay).read_text())
        case = rep.get("case") or {}
        replay_case = work / "replay_case.json"
        replay_case.write_text(json.dumps(case))
        tier = case.get("tier", tier)
        seed = int(case.get("seed", seed))
        nshards = 1
        shard_ids = [int(case.get("shard", 0))]
        real_nshards = int(case.get("nshards", 1))
    else:
        shard_ids = list(range(nshards))
        real_nshards = nshards

    jobs = []
    for s in shard_ids:
        out = work / f"shard_{s}.json"
        cmd = [PY, "-m", "pvm.runner", "--shard-run", prop, "--tier", tier, "--seed", str(seed), "--shard", str(s),
               "--nshards", str(real_nshards), "--out", str(out)]
        if replay_case:
            cmd += ["--replay-case", str(replay_case)]
        jobs.append(("shard", s, cmd, out, None))
    # the repository's own tests under the passive monitors (thorough tier, properties marked so)
    if tier == "thorough" and not replay_case and getattr(mod, "PASSIVE_UNDER_TESTS", False):
        out = work / "pytest_passive.json"
        penv_extra = {"PVM_PROP": prop, "PVM_OUT": str(out)}
        cmd = [PY, "-m", "pytest", "-q", "-x", "--no-header", "-p", "no:cacheprovider", "-p", "pvm.pytest_plugin",
               "--timeout=900", "-W", "ignore", "tests"]
        jobs.append(("pytest", -1, cmd, out, penv_extra))

    results: List[dict] = []
    problems: List[str] = []

    def run_job(job):
        kind, s, cmd, out, extra = job
        e = dict(env)
        cwd = None
        if extra:
            e.update(extra)
            cwd = os.environ.get("PVM_REPO", "/repo")
        r = _run_child(cmd, cfg["watchdog_s"], e, cwd)
        return job, r

    with ThreadPoolExecutor(max_workers=max(1, min(16, len(jobs)))) as ex:
        for job, r in ex.map(run_job, jobs):
            kind, s, cmd, out, extra = job
            if r["timeout"]:
                problems.append(f"{kind} {s} hit the watchdog ({cfg['watchdog_s']} s)")
                continue
            if not out.exists():
                problems.append(f"{kind} {s} produced no result (rc={r['rc']}): {r['stderr'][-400:]}")
                continue
            try:
                data = json.loads(out.read_text())
            except Exception as e:
                problems.append(f"{kind} {s} result unreadable: {e}")
                continue
            if kind == "pytest":
                data.setdefault("notes", {})["pytest_rc"] = r["rc"]
                data["notes"]["pytest_tail"] = r["stdout"][-300:]
            results.append(data)

    merged = core.merge(prop, results)
    merged["inconclusive"] += problems
    findings = core.load_known_findings()
    return finish(prop, tier, seed, mod, merged, findings, time.time() - t0, cfg, work, replay=bool(replay_case))


def _workdir() -> Path:
    d = ROOT / ".work"
    d.mkdir(exist_ok=True)
    return d


def finish(prop, tier, seed, mod, merged, findings, wall, cfg, work, replay=False) -> int:
    records = [r for r in merged["records"] if r["property"] == prop]
    foreign = [r for r in merged["records"] if r["property"] != prop]
    known_hits: Dict[str, dict] = {}
    violations: List[dict] = []
    for r in records:
        k = core.match_known(r, findings)
        if k is not None:
            hit = known_hits.setdefault(k["id"], {"entry": k, "count": 0})
            hit["count"] += 1
        else:
            violations.append(r)

    deciding = getattr(mod, "DECIDING_MONITORS", [])
    reasons = list(merged["inconclusive"])
    for m in deciding:
        if merged["monitor_evals"].get(m, 0) == 0:
            reasons.append(f"deciding monitor {m} was never evaluated")
    distinct = len(merged["nontrivial"])
    floor = cfg["floor"]
    if not replay and distinct < floor:
        reasons.append(f"only {distinct} distinct non-trivial cases (floor {floor})")
    reach_all: Dict[str, int] = {}
    for key in ("anchor_reach_shard0", "anchor_reach_other"):
        for k, v in (merged["notes"].get(key) or {}).items():
            reach_all[k] = reach_all.get(k, 0) + int(v)
    if reach_all and not replay and not any(reach_all.values()):
        reasons.append("none of the property's anchored code ranges was executed by the workload")
    total_mon = sum(merged["monitor_evals"].values()) or 1
    nerr = sum(merged["monitor_errors"].values())
    nwork = sum(v for k, v in merged["monitor_errors"].items() if k.startswith("workload["))
    if nwork:
        # an exception nobody expected left a case function: a defect of the library the case did not foresee, or of the case itself -
        # either way those cases were not judged
        reasons.append(f"{nwork} workload cases ended in an unexpected exception (see evidence.monitor_error_samples)")
    elif nerr > max(3, 0.001 * total_mon):
        reasons.append(f"{nerr} monitor errors (see evidence.monitor_error_samples)")

    # replay files for violations
    rdir = Path(os.environ.get("PVM_REPLAY_DIR") or (ROOT / "replays")) / prop
    replay_paths = []
    if not replay and rdir.exists():
        for old in rdir.glob(f"{tier}_s{seed}_*.json"):  # witnesses of an earlier run with the same tier and seed are stale
            try:
                old.unlink()
            except OSError:
                pass
    if violations:
        rdir.mkdir(parents=True, exist_ok=True)
        seen = set()
        for v in violations:
            key = (v["monitor"], v["symptom"], v["mechanism"])
            if key in seen or len(replay_paths) >= 10:
                continue
            seen.add(key)
            name = f"{tier}_s{seed}_{core.sig_hash([v['monitor'], v['symptom'], v['case']])}.json"
            p = rdir / name
            core.write_json(p, v)
            replay_paths.append(p)

    coverage = {
        "evaluations": merged["evaluations"],
        "distinct_nontrivial": distinct,
        "rule": getattr(mod, "RULE", ""),
        "samples": merged["samples"][: core.MAX_SAMPLES] or ["(no non-trivial case was generated)"],
        "monitor_evaluations": merged["monitor_evals"],
        "monitor_skips": merged["monitor_skips"],
        "monitor_errors": merged["monitor_errors"],
        "monitor_error_samples": merged["monitor_error_samples"][:4],
        "classes": merged["classes"],
        "anchor_reach": {"ranges": len(reach_all), "ranges_reached": sum(1 for v in reach_all.values() if v),
                         "functions_entered_per_anchor_range (function body overlapping the range +-45 lines, summed over shards)": reach_all},
        "notes": {k: v for k, v in merged["notes"].items() if not k.startswith("anchor_reach_")},
        "known_findings_seen": {k: v["count"] for k, v in known_hits.items()},
        "violation_records": merged["record_count"],
        "violation_samples": [{k: v for k, v in r.items() if k != "case"} for r in violations[:5]],
        "foreign_records": len(foreign),
        "foreign_samples": [{k: v for k, v in r.items() if k != "case"} for r in foreign[:4]],
        "inconclusive_reasons": reasons,
        "shards": cfg["shards"],
        "exhaustive": bool(getattr(mod, "EXHAUSTIVE", False)),
    }
    verdict = "violated" if violations else ("inconclusive" if reasons else "held")
    coverage["verdict"] = verdict
    evidence = {
        "property_id": prop,
        "tier": tier,
        "seed": seed,
        "level": "exploration",
        "coverage": coverage,
        "assumptions": getattr(mod, "ASSUMPTIONS", []),
        "wall_s": round(wall, 2),
        "violations": len(violations),
    }
    if not replay:
        core.write_json(Path(os.environ.get("PVM_EVIDENCE_DIR") or (ROOT / "evidence")) / f"{prop}.json", evidence)
    # clean scratch
    try:
        import shutil

        shutil.rmtree(work, ignore_errors=True)
    except Exception:
        pass

    for kid, hit in sorted(known_hits.items()):
        e = hit["entry"]
        print(f"KNOWN-FINDING: property={prop} {e['mechanism']}: {e['what']} (seen {hit['count']}x)")
    print(f"[{prop}] tier={tier} seed={seed} cases={merged['evaluations']} distinct_nontrivial={distinct} "
          f"monitor_evals={sum(merged['monitor_evals'].values())} records={len(records)} violations={len(violations)} "
          f"wall={wall:.1f}s verdict={verdict}")
    if violations:
        for p in replay_paths:
            print(f"VIOLATION property={prop} replay={p}")
        for v in violations[:5]:
            print(f"  - {v['monitor']} / {v['op']}: {v['symptom']} (mechanism={v['mechanism']}, diff={v['diff']})")
        return 1
    if reasons:
        for r in reasons[:6]:
            print(f"INCONCLUSIVE property={prop} reason={r}")
        return 2
    return 0


def main(argv=None) -> int:
    ap = argparse.ArgumentParser()
    ap.add_argument("prop", nargs="?")
    ap.add_argument("--tier")
    ap.add_argument("--seed", type=int)
    ap.add_argument("--replay")
    ap.add_argument("--shard-run", dest="shard_run")
    ap.add_argument("--shard", type=int, default=0)
    ap.add_argument("--nshards", type=int, default=1)
    ap.add_argument("--out")
    ap.add_argument("--replay-case", dest="replay_case")
    args = ap.parse_args(argv)
    if args.shard_run:
        args.prop = args.shard_run
        args.tier = args.tier or "quick"
        args.seed = args.seed or 0
        return shard_main(args)
    if not args.prop:
        ap.error("property id required")
    return parent_main(args)


if __name__ == "__main__":
    sys.exit(main())
