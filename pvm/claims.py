"""What each claimed check decides, in the words used by MANIFEST.json (tools/gen_manifest.py)."""

CLAIMS = {
    "C01": {
        "technique": "runtime post-condition monitor on h1 (exact reference model per observed call) under seeded hostile workloads + repository tests",
        "text": ("Every observed h1 call (thousands per run: values on / one ulp beside every edge, gaps, NaN with weights, far values, "
                 "all bin specification classes, dtypes, keep_missed, containers) is re-derived by an exact rational reference model from the "
                 "caller's data and the reported bins; contents, errors2, under/overflow and the accounting identity are compared with ==. "
                 "Exploration: held on the executions produced, not a proof."),
    },
    "C02": {
        "technique": "runtime post-condition monitor on h / h2 / h3 (exact per-row reference model) under seeded hostile workloads + repository tests",
        "text": ("Every observed h/h2/h3 call is re-derived row by row from the caller's data, the reported per-axis bins and each binning's own "
                 "right-edge flag; cell contents, errors2, missed and total+missed are compared exactly; per-axis arguments, bin counts and data "
                 "coverage are checked on their own axis (columns live in different ranges so axis mix-ups are visible). Exploration."),
    },
    "C03": {
        "technique": "per-call delta monitor on fill / fill_n / find_bin + history equivalence of entry paths (construction, fill, fill_n, mixtures)",
        "text": ("Each observed fill/fill_n must change exactly the destination the reference model names by exactly the weight, find_bin must agree "
                 "and change nothing; for random data sets the final states reached by construction, single fills in random order, fill_n over random "
                 "partitions and mixtures are compared (1D regular/irregular/gapped, 2-3D with right-open and right-closed axes, keep_missed on/off). Exploration."),
    },
    "C04": {
        "technique": "history monitor with a grid model on adaptive histograms (per-step interval-map conservation, coverage, grid, span) + final ledger comparison",
        "text": ("After every fill / fill_n of random histories on adaptive fixed-width histograms (1-3D, non-dyadic widths, values on / one ulp beside "
                 "grid points, far values, empty and NaN batches, align/shift options) the step monitor checks that nothing was lost, every value is in a bin, "
                 "old edges stay edges, contents stay attached to their intervals and the span is exact; the final state is compared with the exact model of "
                 "everything entered; data-derived fixed_width/pretty/integer binnings must cover their data. Exploration."),
    },
    "C12": {
        "technique": "world monitor: snapshots of all live histograms around every public call in random derivation x mutation histories",
        "text": ("Random histories over a small population (constructions, all derivations named in the statement, mutations incl. adaptive growth, direct "
                 "metadata edits); around every public call every live object is snapshotted and every object other than the mutation target must be "
                 "bit-identical afterwards; copy() and copy(include_frequencies=False) are checked for equality / usability. Exploration."),
    },
    "C18": {
        "technique": "world monitor (well-formedness after every public call, atomicity after every raise) + fault injection in random histories",
        "text": ("Random histories with invalid calls injected at every position; after every public call shapes and signs of every object touched are "
                 "checked, after every raise the target's contents per interval, errors2 and missed values must equal the pre-call values; calls the "
                 "statements require to be refused must raise. Exploration."),
    },
    "C05": {
        "technique": "per-call interval-wise addition monitor + partition / summation-order history checks against the exact model of all data",
        "text": ("Every observed histogram addition / subtraction is checked interval by interval (contents, errors2, missed, bins, adaptive union span); "
                 "data sets are partitioned into chunks, histogrammed on equal static bins or one adaptive grid and recombined in random order and association "
                 "(+, +=, sum, collection, dask): result vs exact model of all data, two orders vs each other, operands unchanged; mandated refusals must raise. Exploration."),
    },
    "C06": {
        "technique": "per-call element-wise scaling monitor + algebraic identities (commutation, round trip, normalisation sums) + mandated refusals",
        "text": ("Every observed *, /, *=, /= by python / numpy scalars is checked element-wise (contents and missed x c, errors2 x c*c, bins and operand untouched, "
                 "statistics invariant, weight scaled); identities c*h == h*c, (h*c)/c == h, normalize, partial_normalize, collection normalisation; h*h, h/h, c/h, "
                 "negative factors and arrays must be refused. Exploration."),
    },
    "C13": {
        "technique": "world invariant dtype == frequencies.dtype == errors2.dtype after every public call + dtype rule ledger over histories on all supported dtypes",
        "text": ("Histories over int16..long double contents with weighted / unweighted fills, mixed-dtype + and -, scalings, normalisation, merges and set_dtype; after every "
                 "operation the coherence invariant, the operation's dtype rule (integer stays integer, float weights / factors / division promote, numpy promotion for "
                 "histogram arithmetic), a float64 value shadow (no truncation) and the set_dtype admissibility rule (refusal changes nothing) are checked. Exploration."),
    },
    "C14": {
        "technique": "shadow ledger of every (value, weight) entered, compared with the recorded statistics after every step of random histories",
        "text": ("In-range data are entered by construction, fill, fill_n chunkings, sums of partial histograms, copies and rescalings; after every step weight, sum, sum2, "
                 "min, max, mean, variance, std (and the median after unweighted construction) are compared with math.fsum over the ledger; operations that cannot "
                 "maintain statistics must leave NaN. Exploration."),
    },
    "C09": {
        "technique": "per-call projection monitor against an explicit loop marginal + chain / direct-construction / T / accumulate identities",
        "text": ("Every observed projection is compared with a marginal recomputed by an explicit loop over all cells (contents, errors2, bins and names of the kept "
                 "axes in original order, total, class), with the histogram built directly from the kept columns and with stepwise projection; T, T.T, accumulate and "
                 "the mandated refusals are checked on 2-4D histograms with asymmetric shapes and weighted contents. Exploration."),
    },
    "C10": {
        "technique": "per-call merge_bins monitor: new bins must be unions of runs of adjacent old bins with summed contents; refusals and in-place atomicity",
        "text": ("Every observed merge_bins (all amounts 1..n+3, min_frequency thresholds, each axis / all axes, in place / copying, irregular and gapped bins incl. gaps "
                 "far below the edge magnitude) is checked: run structure, run sums of contents and errors2, untouched axes / totals / missed / source; gaps and "
                 "non-integral or non-positive amounts must be refused without changing anything. Exploration."),
    },
    "C11": {
        "technique": "per-call indexing monitor whose oracle is numpy indexing of the source arrays; complete enumeration of the 1D slice space for <= 6 bins",
        "text": ("All slices (start, stop in -n-1..n+1, step None/1/2/-1) for 1..6 bins are enumerated completely; ints, masks, index arrays, ND tuples and select are "
                 "sampled on 1-4D histograms; bins / contents / errors2 must equal the numpy-indexed source arrays, contiguous slices conserve total+under+overflow, "
                 "dropped axes drop their names, invalid expressions are refused, the source is untouched, the selection's edge representations agree. Exploration."),
    },
    "C07": {
        "technique": "consistency audit of every binning object produced (all representations, copy, ==, slicing) + rule oracles per factory under seeded data",
        "text": ("Data over 14 orders of magnitude x every bin specification (int, range, numpy, fixed_width, pretty, integer, quantile, exponential, edges, pairs, "
                 "bin-count rules), reached through h1, calculate_1d_bins and the factories; each resulting binning is audited (pair / edge / masked-edge forms, counts, "
                 "first/last edge, is_consecutive, is_regular, copy, ==, slices, as_static) and compared with its rule (numpy.histogram_bin_edges, textbook bin-count "
                 "formulas and quantiles, grid alignment in ulps, pretty family / nearness, geometric edges) and with coverage of its data; invalid edge arrays must raise. Exploration."),
    },
    "C08": {
        "technique": "round-trip monitor on every observed serialisation (parse, compare attribute by attribute bit-exactly, re-serialise) + version-gate probes",
        "text": ("Histograms of every class x binning type x dtype x missed values / NaN markers / custom errors / metadata / adaptivity / keep_missed, and collections, "
                 "are serialised (to_json, save_json, files + load_json), parsed and compared bit-exactly through public attributes; the parsed object is serialised again and "
                 "the documents compared; documents declaring required versions around the running one must be accepted or refused. Exploration."),
    },
    "C15": {
        "technique": "inverse-formula oracle on Class.transform + exact path-consistency monitor over facade / fill / fill_n / find_bin (raw and transformed=True)",
        "text": ("Points in all quadrants / octants, on axes, at the origin and with signed zeros are transformed (inverse formulas and ranges checked with the math module) and "
                 "entered through every path of the six special classes; all paths must yield identical contents and the math-module bin for points away from edges; caller "
                 "arrays must stay untouched; projections must have the mapped class and marginal contents; wrong dimensionality must be refused. Exploration."),
    },
    "C16": {
        "technique": "closed-form geometry oracle (math module) on bin_sizes / densities / edges / centres / widths / cumulative values of constructed histograms",
        "text": ("Histograms of every class over irregular bins (partial and full angular ranges) with arbitrary contents: bin_sizes vs the statement's formulas, "
                 "densities * bin_sizes == frequencies, additivity under merge_bins, totals vs the measure of the covered region, edge / centre / width accessors in 1D, "
                 "per-axis and mesh forms, cumulative_frequencies as running sum ending at total. Exploration."),
    },
    "C17": {
        "technique": "differential monitor: every supported container vs the equivalent numpy array (public snapshots must be equal) + conversion round trips",
        "text": ("Lists, tuples, iterators, multi-dimensional arrays, pandas Series / DataFrames (+ accessors, weights as arrays / Series / column names), polars Series / "
                 "DataFrames (+ namespaces) and dask arrays under random chunkings are histogrammed and compared with the numpy-array call, incl. NaN rows with weights and "
                 "axis names; invalid inputs must be refused; xarray, pandas Series / DataFrame / IntervalIndex (gapped too) and generated Geant4 CSV files (1D, 2D nx != ny, "
                 "under/overflow rows, moment-consistency oracle) must preserve bins, contents, errors and under/overflow. Exploration."),
    },
    "C19": {
        "technique": "schedule stress: threads + asyncio tasks with per-context shadow stacks, switch interval 1 us, sys.monitoring yield injection; probes after every step",
        "text": ("8-32 threads and 8-64 tasks (with sub-tasks) run random programs of nested enable/disable blocks, setter writes and exceptions; after every step the value "
                 "read from config and the acceptance of array operands / negative contents are compared with the context's own shadow stack while other contexts hold the "
                 "opposite value (conflicting overlaps are counted; below the floor the run is inconclusive); LINE callbacks sleep(0) inside config.py and the guarded "
                 "operators to force pre-emption between set and reset; environment defaults are checked in child processes. Exploration of schedules, not a proof."),
    },
    "C20": {
        "technique": "artist inspection: matplotlib (Agg) Axes artists, plotly traces and captured stdout compared with the histogram's data; snapshot before / after every plotting call",
        "text": ("1D / 2D histograms and collections are plotted with every matplotlib, plotly and ASCII kind and the density / cumulative / errors / show_values / show_zero / "
                 "ticks / cmap= / logarithmic colour scale (image, bar, scatter) options; bar rectangles, line / step / scatter data, fill polygons, error-bar segments, map rectangles and colours, image array and extent, texts, "
                 "titles, labels, ticks, traces and stdout are compared with edges / centres and frequencies / densities / running sums / +-sqrt(errors2); plotting must "
                 "not modify the histogram (also checked passively under the repository's tests); refusals and TimeTickHandler ticks are checked. Exploration."),
    },
}
