"""What each claimed check decides, in the words used by MANIFEST.json (tools/gen_manifest.py)."""

CLAIMS = {
    "C01": {
        "technique": "runtime post-condition monitor on h1 (exact reference model per observed call) under seeded hostile workloads + repository tests",
        "text": ("Every observed h1 call (thousands per run: values on / one ulp beside every edge, gaps, NaN with weights, far values, "
                 "all bin specification classes, dtypes, keep_missed, containers) is re-derived by an exact rational reference model from the "
                 "caller's data and the reported bins; contents, errors2, under/overflow and the accounting identity are compared with ==. "
                 "Exploration: held on the executions produced, not a proof."),
    },
}
