"""Per-call monitors for fill / fill_n / find_bin (C03) on the plain (non-transformed) histogram classes.

For every observed call the post-state must differ from the pre-state by exactly the weight of
the entered value(s) in exactly the destination the reference model names; nothing else may change.
"""
from __future__ import annotations

import math
from fractions import Fraction
from typing import Any, Dict, List, Optional, Tuple

import numpy as np

from .. import core, model, snapshot as snap
from ..attach import Call, Handler, quiet


def is_transformed(h) -> bool:
    return any(c.__name__ == "TransformedHistogramMixin" for c in type(h).__mro__)


def model_index_1d(bins: np.ndarray, v: float):
    """-1 underflow, n overflow, None gap, else bin index; last bin closed (statement of C01/C03)."""
    n = len(bins)
    for k in range(n):
        if bins[k, 0] <= v < bins[k, 1] or (k == n - 1 and v == bins[k, 1]):
            return k
    if v < bins[0, 0]:
        return -1
    if v > bins[-1, 1]:
        return n
    return None


def model_index_nd(bins: List[np.ndarray], right_closed: List[bool], row) -> Optional[Tuple[int, ...]]:
    idx = []
    for ax, x in enumerate(row):
        b = bins[ax]
        n = len(b)
        found = None
        for k in range(n):
            if b[k, 0] <= x < b[k, 1] or (k == n - 1 and x == b[k, 1] and right_closed[ax]):
                found = k
                break
        if found is None:
            return None
        idx.append(found)
    return tuple(idx)


def _num(x) -> float:
    return float(x)


def _scalar_ok(v) -> bool:
    return isinstance(v, (int, float, np.integer, np.floating)) and not isinstance(v, bool)


def classify_1d_fill(h_pre: Dict[str, Any], v: float) -> Optional[str]:
    if isinstance(v, float) and math.isnan(v):
        return "fill.nan_value"
    return None


def check_fill_1d(rec: core.Recorder, h, pre: Dict[str, Any], value, weight, result, pre_find, *, op="Histogram1D.fill",
                  detail=None, adaptive_pre: bool = False) -> bool:
    """pre: snapshot before the call. Non-adaptive histograms only (adaptive growth is C04)."""
    rec.mon("C03.fill.delta")
    ok = True
    v = float(value)
    w = float(weight)
    mech = classify_1d_fill(pre, v)

    def fail(symptom, diff, **extra):
        nonlocal ok
        ok = False
        d = dict(detail or {})
        d.update(value=v.hex() if not math.isnan(v) else "nan", weight=w, returned=result, **extra)
        rec.fail(prop="C03", monitor="C03.fill.delta", op=op, symptom=symptom, diff=diff, mechanism=mech, detail=d)

    post = snap.snapshot(h)
    bins = snap.arr_values(pre["bins"][0])
    n = len(bins)
    if math.isnan(v):
        # a NaN is not a value: equivalence with construction (which skips NaN) demands no change
        d = snap.diff(pre, post, ignore=("dtype", "statistics"))
        num_changed = [k for k in d if k in ("frequencies", "errors2", "underflow", "overflow", "inner_missed", "bins")
                       and not (k in ("frequencies", "errors2") and snap.values_equal_numeric(pre[k], post[k]))]
        if num_changed:
            fail("fill(NaN) changed the histogram (construction and fill_n skip NaN)", num_changed)
        return ok
    exp = model_index_1d(bins, v)
    if result != exp or (result is not None and isinstance(result, bool)):
        fail("fill returned an index different from the bin that contains the value", ["return"], expected=exp)
    if pre_find is not None and pre_find[0] == "ok":
        if pre_find[1] != exp:
            fail("find_bin differs from the bin that contains the value", ["find_bin"], find_bin=pre_find[1], expected=exp)
        if pre_find[2]:
            fail("find_bin changed the histogram", sorted(pre_find[2]))
    if post["bins"] != pre["bins"]:
        fail("fill changed the bins of a non-adaptive histogram", ["bins"])
        return ok
    f0, f1 = snap.arr_values(pre["frequencies"]).astype(float), snap.arr_values(post["frequencies"]).astype(float)
    e0, e1 = snap.arr_values(pre["errors2"]).astype(float), snap.arr_values(post["errors2"]).astype(float)
    if f0.shape != f1.shape:
        fail("fill changed the shape of the contents", ["frequencies"])
        return ok
    ef, ee = f0.copy(), e0.copy()
    keep = pre["keep_missed"]
    eu, eo = pre["underflow"], pre["overflow"]
    if exp is None:
        eu = eo = "nan"
    elif exp == -1:
        if keep and eu != "nan":
            eu = eu + w
    elif exp == n:
        if keep and eo != "nan":
            eo = eo + w
    else:
        ef[exp] += w
        ee[exp] += w * w
    dtype_post = np.dtype(post["dtype"])
    exactf = dtype_post.itemsize >= 8
    if exactf:
        if not np.array_equal(f1, ef):
            fail("contents after fill differ from 'exactly the weight in exactly that bin'", ["frequencies"], before=f0, after=f1, expected=ef)
        if not np.array_equal(e1, ee):
            fail("errors2 after fill differ from 'exactly weight**2 in exactly that bin'", ["errors2"], before=e0, after=e1, expected=ee)
    else:
        tol = float(np.finfo(dtype_post).eps) * 4 if dtype_post.kind == "f" else 0
        if not np.allclose(f1, ef, rtol=tol, atol=0):
            fail("contents after fill differ from 'exactly the weight in exactly that bin'", ["frequencies"], before=f0, after=f1, expected=ef)
        if not np.allclose(e1, ee, rtol=tol, atol=0):
            fail("errors2 after fill differ", ["errors2"], before=e0, after=e1, expected=ee)
    if keep:
        for name, expected in (("underflow", eu), ("overflow", eo)):
            got = post[name]
            if expected == "nan" or got == "nan":
                good = expected == got
            elif exactf:
                good = got == expected
            else:
                good = abs(got - expected) <= 1e-2 * max(1.0, abs(expected))
            if not good:
                fail(f"{name} after fill is wrong", [name], before=pre[name], after=got, expected=expected)
    else:
        if exp in (-1, n) or exp is None:  # below, above, or in a gap between the bins: outside the bins
            d = snap.diff(pre, post, ignore=("dtype", "statistics"))
            d = {k for k in d if not (k in ("frequencies", "errors2") and snap.values_equal_numeric(pre[k], post[k]))}
            if d:
                fail("keep_missed is off but an outside value changed the histogram", sorted(d))
    for k in ("name", "title", "axis_names", "meta_data", "keep_missed", "adaptive", "class", "inner_missed"):
        if pre.get(k) != post.get(k):
            fail(f"fill changed {k}", [k])
    return ok


def check_fill_nd(rec: core.Recorder, h, pre: Dict[str, Any], value, weight, result, pre_find, *, op="HistogramND.fill",
                  detail=None, right_closed=None) -> bool:
    rec.mon("C03.fill.delta")
    ok = True
    row = [float(x) for x in np.asarray(value, dtype=float).ravel()]
    w = float(weight)
    has_nan = any(math.isnan(x) for x in row)
    mech = "fill.nan_value" if has_nan else None

    def fail(symptom, diff, **extra):
        nonlocal ok
        ok = False
        d = dict(detail or {})
        d.update(value=[x.hex() if not math.isnan(x) else "nan" for x in row], weight=w, returned=result, **extra)
        rec.fail(prop="C03", monitor="C03.fill.delta", op=op, symptom=symptom, diff=diff, mechanism=mech, detail=d)

    post = snap.snapshot(h)
    bins = [snap.arr_values(t) for t in pre["bins"]]
    rc = right_closed if right_closed is not None else pre["includes_right_edge"]
    if has_nan:
        d = snap.diff(pre, post, ignore=("dtype",))
        d = {k for k in d if not (k in ("frequencies", "errors2") and snap.values_equal_numeric(pre[k], post[k]))}
        if d:
            fail("fill(NaN row) changed the histogram (construction and fill_n drop NaN rows)", sorted(d))
        return ok
    exp = model_index_nd(bins, rc, row)
    res = result
    if res is not None:
        try:
            res = tuple(int(i) for i in res)
        except Exception:
            pass
    if res != exp:
        fail("fill returned an index different from the cell that contains the point", ["return"], expected=exp)
    if pre_find is not None and pre_find[0] == "ok":
        pf = pre_find[1]
        if pf is not None:
            pf = tuple(int(i) for i in pf)
        if pf != exp:
            fail("find_bin differs from the cell that contains the point", ["find_bin"], find_bin=pre_find[1], expected=exp)
        if pre_find[2]:
            fail("find_bin changed the histogram", sorted(pre_find[2]))
    if post["bins"] != pre["bins"]:
        fail("fill changed the bins of a non-adaptive histogram", ["bins"])
        return ok
    f0, f1 = snap.arr_values(pre["frequencies"]).astype(float), snap.arr_values(post["frequencies"]).astype(float)
    e0, e1 = snap.arr_values(pre["errors2"]).astype(float), snap.arr_values(post["errors2"]).astype(float)
    if f0.shape != f1.shape:
        fail("fill changed the shape of the contents", ["frequencies"])
        return ok
    ef, ee = f0.copy(), e0.copy()
    em = pre["missed"]
    if exp is None:
        if pre["keep_missed"] and em != "nan":
            em = em + w
    else:
        ef[exp] += w
        ee[exp] += w * w
    if not np.array_equal(f1, ef):
        fail("contents after fill differ from 'exactly the weight in exactly that cell'", ["frequencies"],
             changed_cells=int(np.sum(f1 != f0)), expected_cell=exp)
    if not np.array_equal(e1, ee):
        fail("errors2 after fill differ from 'exactly weight**2 in exactly that cell'", ["errors2"], changed_cells=int(np.sum(e1 != e0)))
    if post["missed"] != em:
        fail("missed after fill is wrong", ["missed"], before=pre["missed"], after=post["missed"], expected=em)
    for k in ("name", "title", "axis_names", "meta_data", "keep_missed", "adaptive", "class"):
        if pre.get(k) != post.get(k):
            fail(f"fill changed {k}", [k])
    return ok


def check_fill_n_1d(rec: core.Recorder, h, pre: Dict[str, Any], values: np.ndarray, weights: Optional[np.ndarray], *,
                    op="Histogram1D.fill_n", detail=None) -> bool:
    """Delta check on interval maps (valid for adaptive growth as well): post == pre + model(batch on post bins)."""
    rec.mon("C03.fill_n.delta")
    ok = True
    mech = None

    def fail(symptom, diff, **extra):
        nonlocal ok
        ok = False
        d = dict(detail or {})
        d.update(values=[float(x).hex() if not math.isnan(x) else "nan" for x in values[:60]],
                 weights=None if weights is None else [float(x) for x in weights[:60]], **extra)
        rec.fail(prop="C03", monitor="C03.fill_n.delta", op=op, symptom=symptom, diff=diff, mechanism=mech, detail=d)

    post = snap.snapshot(h)
    bins1 = snap.arr_values(post["bins"][0])
    adaptive = bool(pre.get("adaptive"))
    if not adaptive and post["bins"] != pre["bins"]:
        fail("fill_n changed the bins of a non-adaptive histogram", ["bins"])
        return ok
    if len(bins1) == 0:
        return ok
    m = model.bin_1d(bins1, values, weights, last_closed=True)
    premap = snap.interval_map(pre) or {}
    postmap = snap.interval_map(post)
    if postmap is None:
        fail("histogram ill-formed after fill_n", ["frequencies"])
        return ok
    exact = model.exact_weights_ok(weights) and np.dtype(post["dtype"]).itemsize >= 8
    exp: Dict[Tuple, List[float]] = {k: [v[0], v[1]] for k, v in premap.items()}
    for k in range(len(bins1)):
        if m.freq[k] != 0 or m.err2[k] != 0:
            key = ((float(bins1[k, 0]), float(bins1[k, 1])),)
            cur = exp.setdefault(key, [0.0, 0.0])
            cur[0] += float(m.freq[k])
            cur[1] += float(m.err2[k])
    exp = {k: v for k, v in exp.items() if v[0] != 0 or v[1] != 0}
    if exact:
        if {k: v[0] for k, v in exp.items()} != {k: v[0] for k, v in postmap.items()}:
            fail("contents after fill_n differ from previous contents + weight of the batch per bin", ["frequencies"],
                 expected={str(k): v for k, v in list(exp.items())[:20]}, got={str(k): v for k, v in list(postmap.items())[:20]})
        elif {k: v[1] for k, v in exp.items()} != {k: v[1] for k, v in postmap.items()}:
            fail("errors2 after fill_n differ from previous errors2 + squared weights of the batch per bin", ["errors2"],
                 expected={str(k): v for k, v in list(exp.items())[:20]}, got={str(k): v for k, v in list(postmap.items())[:20]})
    else:
        keys = set(exp) | set(postmap)
        for k in keys:
            a, b = exp.get(k, [0.0, 0.0]), postmap.get(k, (0.0, 0.0))
            if not (model.close(a[0], b[0], abs(a[0]) + 1, 1e-3 if np.dtype(post["dtype"]).itemsize < 8 else 1e-9)
                    and model.close(a[1], b[1], abs(a[1]) + 1, 1e-3 if np.dtype(post["dtype"]).itemsize < 8 else 1e-9)):
                fail("contents/errors2 after fill_n differ from previous + batch (float tolerance)", ["frequencies", "errors2"], key=str(k), expected=a, got=b)
                break
    cons = all(bins1[i, 1] == bins1[i + 1, 0] for i in range(len(bins1) - 1))
    if pre["keep_missed"] and not adaptive:
        for name, add in (("underflow", m.underflow), ("overflow", m.overflow)):
            before, after = pre[name], post[name]
            if before == "nan":
                continue  # unknown stays unknown or whatever: not asserted
            if cons:
                expected = before + float(add)
                good = (after == expected) if exact else (after != "nan" and abs(after - expected) <= 1e-6 * max(1, abs(expected)))
                if not good:
                    fail(f"{name} after fill_n differs from previous + weight of the batch outside", [name], before=before, after=after, expected=expected)
    elif not pre["keep_missed"]:
        if pre["underflow"] != post["underflow"] or pre["overflow"] != post["overflow"]:
            fail("keep_missed is off but fill_n changed under/overflow", ["underflow", "overflow"])
    for k in ("name", "title", "axis_names", "meta_data", "keep_missed", "adaptive", "class", "inner_missed"):
        if pre.get(k) != post.get(k):
            fail(f"fill_n changed {k}", [k])
    return ok


def check_fill_n_nd(rec: core.Recorder, h, pre: Dict[str, Any], rows: np.ndarray, weights: Optional[np.ndarray], *,
                    op="HistogramND.fill_n", detail=None) -> bool:
    rec.mon("C03.fill_n.delta")
    ok = True

    def fail(symptom, diff, **extra):
        nonlocal ok
        ok = False
        d = dict(detail or {})
        d.update(rows=[[float(x) for x in r] for r in rows[:30].tolist()], weights=None if weights is None else [float(x) for x in weights[:30]], **extra)
        rec.fail(prop="C03", monitor="C03.fill_n.delta", op=op, symptom=symptom, diff=diff, detail=d)

    post = snap.snapshot(h)
    adaptive = bool(pre.get("adaptive"))
    if not adaptive and post["bins"] != pre["bins"]:
        fail("fill_n changed the bins of a non-adaptive histogram", ["bins"])
        return ok
    bins = [snap.arr_values(t) for t in post["bins"]]
    if any(len(b) == 0 for b in bins):
        return ok
    shape, f, e, missed, total, nanw, st = model.bin_nd(bins, post["includes_right_edge"], rows, weights)
    premap = snap.interval_map(pre) or {}
    postmap = snap.interval_map(post)
    if postmap is None:
        fail("histogram ill-formed after fill_n", ["frequencies"])
        return ok
    exp: Dict[Tuple, List[float]] = {k: [v[0], v[1]] for k, v in premap.items()}
    for idx, val in f.items():
        key = tuple((float(bins[ax][i, 0]), float(bins[ax][i, 1])) for ax, i in enumerate(idx))
        cur = exp.setdefault(key, [0.0, 0.0])
        cur[0] += float(val)
        cur[1] += float(e[idx])
    exp = {k: v for k, v in exp.items() if v[0] != 0 or v[1] != 0}
    exact = model.exact_weights_ok(weights) and np.dtype(post["dtype"]).itemsize >= 8
    if exact:
        if {k: v[0] for k, v in exp.items()} != {k: v[0] for k, v in postmap.items()}:
            fail("contents after fill_n differ from previous contents + weight of the batch per cell", ["frequencies"])
        elif {k: v[1] for k, v in exp.items()} != {k: v[1] for k, v in postmap.items()}:
            fail("errors2 after fill_n differ from previous errors2 + squared weights per cell", ["errors2"])
        em = pre["missed"]
        if em != "nan":
            expected = em + float(missed) if pre["keep_missed"] else em
            if post["missed"] != expected:
                fail("missed after fill_n is wrong", ["missed"], before=em, after=post["missed"], expected=expected)
    for k in ("name", "title", "axis_names", "meta_data", "keep_missed", "adaptive", "class"):
        if pre.get(k) != post.get(k):
            fail(f"fill_n changed {k}", [k])
    return ok


# ---------------------------------------------------------------------------------------------
# passive handlers


class FillMonitor(Handler):
    """Attached to Histogram1D.fill and HistogramND.fill (depth-0 calls on plain classes only)."""

    name = "C03.fill"

    def before(self, call: Call):
        h = call.self
        call.bag["skip"] = None
        if call.depth != 0:
            call.bag["skip"] = "nested"
            return
        if is_transformed(h):
            call.bag["skip"] = "transformed"
            return
        args = call.args[1:]
        value = args[0] if args else call.kwargs.get("value")
        weight = args[1] if len(args) > 1 else call.kwargs.get("weight", 1)
        if not _scalar_ok(weight) or not math.isfinite(float(weight)) or float(weight) < 0:
            call.bag["skip"] = "weight"
            return
        if h.is_adaptive():
            call.bag["skip"] = "adaptive"
            return
        one_d = snap.is_1d(h)
        if one_d:
            if not _scalar_ok(value) or math.isinf(float(value)) or abs(float(value)) > 1e150:
                call.bag["skip"] = "value"
                return
        else:
            try:
                va = np.asarray(value, dtype=float)
            except Exception:
                call.bag["skip"] = "value"
                return
            if va.shape != (h.ndim,) or np.any(np.isinf(va)):
                call.bag["skip"] = "value"
                return
        pre = snap.snapshot(h)
        if any(isinstance(pre.get(k), tuple) and pre[k] and pre[k][0] == "error" for k in ("bins",)):
            call.bag["skip"] = "unreadable"
            return
        if snap.wellformed_problems(h):
            call.bag["skip"] = "illformed_before"
            return
        # find_bin must agree and must not change anything
        try:
            fb = h.find_bin(value)
            after_fb = snap.snapshot(h)
            pre_find = ("ok", fb, snap.diff(pre, after_fb))
        except Exception as e:
            pre_find = ("raised", type(e).__name__, set())
        pre_axis = None
        if not one_d and pre_find[0] == "ok":
            # the same question axis by axis (by index or by name) has the same answer
            try:
                names = list(h.axis_names)
                pre_axis = [h.find_bin(float(v), axis=(i if (i + len(names)) % 2 else names[i])) for i, v in enumerate(np.asarray(value, dtype=float).ravel())]
            except Exception as e:
                pre_axis = ("raised", f"{type(e).__name__}: {str(e)[:80]}")
        call.bag.update(pre=pre, value=value, weight=weight, pre_find=pre_find, one_d=one_d, pre_axis=pre_axis)

    def after(self, call: Call):
        rec = core.recorder()
        if call.bag.get("skip"):
            rec.skip(self.name, call.bag["skip"])
            return
        if call.exc is not None:
            rec.skip(self.name, "raised")
            return
        b = call.bag
        if b["one_d"]:
            check_fill_1d(rec, call.self, b["pre"], b["value"], b["weight"], call.result, b["pre_find"], op=call.qualname + "(passive)")
        else:
            check_fill_nd(rec, call.self, b["pre"], b["value"], b["weight"], call.result, b["pre_find"], op=call.qualname + "(passive)")
            pa = b.get("pre_axis")
            if pa is not None and b["pre_find"][0] == "ok":
                pf = b["pre_find"][1]
                if isinstance(pa, tuple) and pa and pa[0] == "raised":
                    rec.fail(prop="C03", monitor="C03.fill.delta", op=call.qualname + "(passive)", symptom="find_bin(coordinate, axis=...) raised for a point that find_bin(point) answers", diff=["find_bin"],
                             detail={"error": pa[1], "value": np.asarray(b["value"], dtype=float).tolist()})
                elif (pf is not None and [None if x is None else int(x) for x in pa] != [int(x) for x in pf]) or (pf is None and all(x is not None for x in pa)):
                    rec.fail(prop="C03", monitor="C03.fill.delta", op=call.qualname + "(passive)", symptom="find_bin axis by axis disagrees with find_bin of the whole point", diff=["find_bin"],
                             detail={"per_axis": pa, "point": None if pf is None else [int(x) for x in pf], "value": np.asarray(b["value"], dtype=float).tolist()})


class FillNMonitor(Handler):
    name = "C03.fill_n"

    def before(self, call: Call):
        h = call.self
        call.bag["skip"] = None
        if call.depth != 0:
            call.bag["skip"] = "nested"
            return
        if is_transformed(h):
            call.bag["skip"] = "transformed"
            return
        args = call.args[1:]
        values = args[0] if args else call.kwargs.get("values")
        weights = args[1] if len(args) > 1 else call.kwargs.get("weights")
        if not call.kwargs.get("dropna", True) or call.kwargs.get("columns"):
            call.bag["skip"] = "options"
            return
        one_d = snap.is_1d(h)
        if one_d:
            va = model.to_flat_float(values)
        else:
            try:
                va = np.asarray(values, dtype=float) if isinstance(values, (list, tuple, np.ndarray)) else None
            except Exception:
                va = None
            if va is not None and (va.ndim != 2 or va.shape[1] != h.ndim):
                va = None
        if va is None:
            call.bag["skip"] = "container"
            return
        fin = va[~np.isnan(va)]
        if fin.size and (np.any(np.isinf(fin)) or np.max(np.abs(fin)) > 1e150):
            call.bag["skip"] = "values"
            return
        wa = None
        if weights is not None:
            try:
                wa = np.asarray(weights).ravel()
            except Exception:
                call.bag["skip"] = "weights"
                return
            n = va.shape[0] if not one_d else va.size
            if wa.dtype.kind not in "iuf" or wa.size != n or not np.all(np.isfinite(wa.astype(float))) or np.any(wa < 0):
                call.bag["skip"] = "weights_values"
                return
        if snap.wellformed_problems(h):
            call.bag["skip"] = "illformed_before"
            return
        call.bag.update(pre=snap.snapshot(h), va=va.copy(), wa=None if wa is None else wa.copy(), one_d=one_d)

    def after(self, call: Call):
        rec = core.recorder()
        if call.bag.get("skip"):
            rec.skip(self.name, call.bag["skip"])
            return
        if call.exc is not None:
            rec.skip(self.name, "raised")
            return
        b = call.bag
        if b["one_d"]:
            check_fill_n_1d(rec, call.self, b["pre"], b["va"], b["wa"], op=call.qualname + "(passive)")
        else:
            check_fill_n_nd(rec, call.self, b["pre"], b["va"], b["wa"], op=call.qualname + "(passive)")


def attach_fill_monitors():
    from physt.histogram1d import Histogram1D
    from physt.histogram_nd import HistogramND
    from .. import attach

    fm, fn = FillMonitor(), FillNMonitor()
    for cls in (Histogram1D, HistogramND):
        attach.wrap(cls, "fill", fm)
        attach.wrap(cls, "fill_n", fn)
