"""JSON round trip (C08): parse_json(h.to_json()) must reproduce the object exactly."""
from __future__ import annotations

import json
import math
from typing import Any, Dict, Optional

import numpy as np

from .. import core, snapshot as snap
from ..attach import Call, Handler
from ..world import is_hist


def json_equal(a: Any, b: Any) -> bool:
    """Equality of parsed JSON documents with NaN == NaN."""
    if isinstance(a, float) and isinstance(b, float):
        return (math.isnan(a) and math.isnan(b)) or a == b
    if isinstance(a, dict) and isinstance(b, dict):
        return a.keys() == b.keys() and all(json_equal(a[k], b[k]) for k in a)
    if isinstance(a, list) and isinstance(b, list):
        return len(a) == len(b) and all(json_equal(x, y) for x, y in zip(a, b))
    if isinstance(a, (int, float)) and isinstance(b, (int, float)) and not isinstance(a, bool) and not isinstance(b, bool):
        return float(a) == float(b) and type(a) is type(b)
    return a == b


def first_difference(a: Any, b: Any, path: str = "") -> Optional[str]:
    if isinstance(a, dict) and isinstance(b, dict):
        for k in sorted(set(a) | set(b)):
            if k not in a or k not in b:
                return f"{path}/{k} (missing on one side)"
            d = first_difference(a[k], b[k], f"{path}/{k}")
            if d:
                return d
        return None
    if isinstance(a, list) and isinstance(b, list):
        if len(a) != len(b):
            return f"{path} (length {len(a)} vs {len(b)})"
        for i, (x, y) in enumerate(zip(a, b)):
            d = first_difference(x, y, f"{path}[{i}]")
            if d:
                return d
        return None
    return None if json_equal(a, b) else f"{path}: {a!r} vs {b!r}"


def compare_histograms(rec: core.Recorder, h, r, *, op: str, detail=None, monitor="C08.roundtrip") -> bool:
    ok = True
    detail = dict(detail or {})

    def fail(symptom, diff, **extra):
        nonlocal ok
        ok = False
        rec.fail(prop="C08", monitor=monitor, op=op, symptom=symptom, diff=diff, detail={**detail, **extra})

    if type(r) is not type(h):
        fail("parsed object has another class", ["class"], got=type(r).__name__, expected=type(h).__name__)
        return False
    s0, s1 = snap.snapshot(h), snap.snapshot(r)
    if s0.get("binning_classes") != s1.get("binning_classes"):
        fail("per-axis binning types differ after the round trip", ["binning_classes"], got=s1.get("binning_classes"), expected=s0.get("binning_classes"))
    for k, what in (("bins", "edges"), ("frequencies", "contents"), ("errors2", "squared errors")):
        if s0[k] != s1[k]:
            extra = {}
            if k != "bins":
                extra = {"before": snap.arr_values(s0[k]).ravel()[:8], "after": snap.arr_values(s1[k]).ravel()[:8], "dtypes": [s0[k][0], s1[k][0]]}
            fail(f"{what} are not bit-identical after the round trip", [k], **extra)
    for k in ("dtype", "keep_missed", "adaptive", "name", "title", "axis_names", "underflow", "overflow", "inner_missed", "missed"):  # includes_right_edge is not named by the statement: not asserted
        if k in s0 and s0[k] != s1.get(k):
            fail(f"{k} differs after the round trip", [k], before=s0[k], after=s1.get(k))
    # the same bins are the same intervals: a value on the upper edge of the last bin belongs to both objects or to neither (a later
    # fill of that value must end in the same place) - whether the last bin is closed is part of what the bins are
    try:
        for ax, (b, c) in enumerate(zip(h.binnings, r.binnings)):
            if len(np.asarray(b.bins)) and bool(b.includes_right_edge) != bool(c.includes_right_edge):
                fail("a value on the upper edge of the last bin is placed differently by the parsed histogram (right edge closed / open not kept)", ["includes_right_edge"],
                     axis=ax, original=bool(b.includes_right_edge), parsed=bool(c.includes_right_edge), binning=type(b).__name__)
    except Exception as e:
        fail(f"binnings not comparable: {type(e).__name__}", ["includes_right_edge"], error=str(e)[:100])
    # custom metadata through the public attribute
    try:
        m0 = {k: v for k, v in h.meta_data.items()}
        m1 = {k: v for k, v in r.meta_data.items()}
        norm = lambda m: json.loads(json.dumps({k: (list(v) if isinstance(v, tuple) else v) for k, v in m.items()}))
        if not json_equal(norm(m0), norm(m1)):
            fail("metadata differ after the round trip", ["meta_data"], before=str(m0)[:300], after=str(m1)[:300])
    except Exception as e:
        fail(f"metadata not comparable: {type(e).__name__}", ["meta_data"])
    try:
        if not (h == r):
            fail("parsed object is not == to the original", ["eq"])
    except Exception as e:
        fail(f"== raised {type(e).__name__}", ["eq"])
    return ok


def check_roundtrip(rec: core.Recorder, obj, text: str, *, op: str, detail=None) -> bool:
    """obj: histogram or collection; text: its serialisation."""
    import physt.io

    rec.mon("C08.roundtrip")
    detail = dict(detail or {})
    ok = True
    try:
        parsed = physt.io.parse_json(text)
    except Exception as e:
        rec.fail(prop="C08", monitor="C08.roundtrip", op=op, symptom=f"parse_json of to_json output raised {type(e).__name__}", diff=["raised"],
                 detail={**detail, "error": str(e)[:200]})
        return False
    if is_hist(obj):
        ok = compare_histograms(rec, obj, parsed, op=op, detail=detail)
    else:
        if type(parsed).__name__ != type(obj).__name__:
            rec.fail(prop="C08", monitor="C08.roundtrip", op=op, symptom="parsed collection has another class", diff=["class"], detail=detail)
            return False
        a, b = list(obj.histograms), list(parsed.histograms)
        if len(a) != len(b):
            rec.fail(prop="C08", monitor="C08.roundtrip", op=op, symptom="collection lost / gained members", diff=["members"], detail={**detail, "before": len(a), "after": len(b)})
            return False
        for i, (x, y) in enumerate(zip(a, b)):
            ok = compare_histograms(rec, x, y, op=op + f"[{i}]", detail=detail) and ok
        # the collection's own name / title / bins are part of what it is
        for attr in ("name", "title"):
            if getattr(obj, attr, None) != getattr(parsed, attr, None):
                rec.fail(prop="C08", monitor="C08.roundtrip", op=op, symptom=f"the collection's own {attr} is not the same after the round trip", diff=[attr],
                         detail={**detail, "before": getattr(obj, attr, None), "after": getattr(parsed, attr, None)})
                ok = False
        try:
            if not np.array_equal(np.asarray(obj.binning.bins), np.asarray(parsed.binning.bins)):
                rec.fail(prop="C08", monitor="C08.roundtrip", op=op, symptom="the collection's own bins are not the same after the round trip", diff=["bins"], detail=detail)
                ok = False
        except Exception:
            pass
    # reading a tree does not use it up: the same parsed document can be read again (and is still the same document)
    try:
        import copy as _copy
        from physt.io import create_from_dict

        tree = json.loads(text)
        kept = _copy.deepcopy(tree)
        create_from_dict(tree, "JSON", check_version=False)
        if not json_equal(tree, kept):
            rec.fail(prop="C08", monitor="C08.roundtrip", op=op, symptom="reading a document tree changed the tree", diff=["document"], detail={**detail, "first_difference": first_difference(kept, tree)})
            ok = False
        create_from_dict(tree, "JSON", check_version=False)
    except Exception as e:
        rec.fail(prop="C08", monitor="C08.roundtrip", op=op, symptom=f"the same document tree could not be read twice: {type(e).__name__}", diff=["raised"], detail={**detail, "error": str(e)[:160]})
        ok = False
    # serialising the parsed object again gives the same document
    try:
        text2 = parsed.to_json()
        d1, d2 = json.loads(text), json.loads(text2)
        if not json_equal(d1, d2):
            rec.fail(prop="C08", monitor="C08.roundtrip", op=op, symptom="second serialisation differs from the first document", diff=["document"],
                     detail={**detail, "first_difference": first_difference(d1, d2)})
            ok = False
    except Exception as e:
        rec.fail(prop="C08", monitor="C08.roundtrip", op=op, symptom=f"serialising the parsed object raised {type(e).__name__}", diff=["raised"], detail={**detail, "error": str(e)[:200]})
        ok = False
    return ok


class ToJsonMonitor(Handler):
    """Passive: every observed save_json result is probed with a side-effect-free parse_json."""

    name = "C08.to_json"

    def before(self, call: Call):
        call.bag["jskip"] = call.depth != 0

    def after(self, call: Call):
        if call.bag.get("jskip") or call.exc is not None:
            return
        obj = call.args[0] if call.args else call.kwargs.get("histogram")
        text = call.result
        if not isinstance(text, str):
            return
        rec = core.recorder()
        try:
            if is_hist(obj) and np.dtype(obj.dtype).itemsize > 8:
                rec.skip(self.name, "longdouble")
                return
        except Exception:
            pass
        check_roundtrip(rec, obj, text, op="save_json(passive)")


def attach_json_monitors():
    import physt.io
    import physt.io.json as pj
    from .. import attach

    attach.wrap(pj, "save_json", ToJsonMonitor())
