"""Per-call monitors for projection / T / accumulate (C09), merge_bins (C10), indexing / select (C11)."""
from __future__ import annotations

import math
from typing import Any, Dict, List, Optional, Tuple

import numpy as np

from .. import core, snapshot as snap
from ..attach import Call, Handler
from ..world import is_hist


def _arr(s: dict, k: str) -> np.ndarray:
    return snap.arr_values(s[k])


# ---------------------------------------------------------------------------------------------
# C09 projection


def resolve_axes(pre: dict, axes: tuple) -> Optional[List[int]]:
    """Independent resolution of int / str axes; None if the request is invalid (must be refused)."""
    nd = pre["ndim"]
    names = list(pre["axis_names"])
    out = []
    for a in axes:
        if isinstance(a, bool):
            return None
        if isinstance(a, (int, np.integer)):
            if a < 0 or a >= nd:
                return None
            out.append(int(a))
        elif isinstance(a, str):
            if a not in names:
                return None
            out.append(names.index(a))
        else:
            return None
    if not out or len(set(out)) != len(out):
        return None
    return out


def check_projection(rec: core.Recorder, *, op: str, pre: dict, res: dict, axes: List[int], detail=None):
    rec.mon("C09.projection.post")
    detail = dict(detail or {})

    def fail(symptom, diff, **extra):
        rec.fail(prop="C09", monitor="C09.projection.post", op=op, symptom=symptom, diff=diff, detail={**detail, "axes": axes, "parent_shape": pre["frequencies"][1], **extra})

    kept = sorted(axes)
    nd = pre["ndim"]
    dropped = tuple(i for i in range(nd) if i not in kept)
    f, e = _arr(pre, "frequencies"), _arr(pre, "errors2")
    # explicit loop marginal (independent of numpy's axis reduction on the same call path)
    shape = tuple(f.shape[i] for i in kept)
    mf = np.zeros(shape, dtype=np.float64)
    me = np.zeros(shape, dtype=np.float64)
    for idx in np.ndindex(*f.shape):
        k = tuple(idx[i] for i in kept)
        mf[k] += float(f[idx])
        me[k] += float(e[idx])
    rf, re_ = _arr(res, "frequencies").astype(float), _arr(res, "errors2").astype(float)
    if rf.shape != shape:
        fail("shape of the projection is not the shape of the kept axes in original order", ["frequencies"], got=rf.shape, expected=shape)
        return
    tol = 1e-9 * (np.abs(mf) + 1)
    if not np.all(np.abs(rf - mf) <= tol):
        fail("contents of the projection are not the sums over the dropped axes", ["frequencies"], got=rf.ravel()[:12], expected=mf.ravel()[:12])
    if not np.all(np.abs(re_ - me) <= 1e-9 * (np.abs(me) + 1)):
        fail("errors2 of the projection are not the sums of the parent's errors2 over the dropped axes", ["errors2"], got=re_.ravel()[:12], expected=me.ravel()[:12])
    want_bins = [pre["bins"][i] for i in kept]
    if res["bins"] != want_bins:
        fail("bins of the projection are not those of the kept axes in original order", ["bins"])
    want_names = tuple(pre["axis_names"][i] for i in kept)
    if tuple(res["axis_names"]) != want_names:
        fail("axis names of the projection are not those of the kept axes in original order", ["axis_names"], got=res["axis_names"], expected=want_names)
    if abs(float(rf.sum()) - float(f.astype(float).sum())) > 1e-9 * (abs(float(f.astype(float).sum())) + 1):
        fail("total of the projection differs from the parent's total", ["total"])
    want_class = {1: "Histogram1D", 2: "Histogram2D"}.get(len(kept), "HistogramND")
    if pre["class"] in ("HistogramND", "Histogram2D") and res["class"] != want_class:
        fail("class of the projection does not match its dimension", ["class"], got=res["class"], expected=want_class)


class ProjectionMonitor(Handler):
    name = "C09.projection"

    def before(self, call: Call):
        call.bag["pskip"] = call.depth != 0 or not is_hist(call.self)
        if call.bag["pskip"]:
            return
        call.bag["ppre"] = snap.snapshot(call.self)

    def after(self, call: Call):
        if call.bag.get("pskip"):
            return
        rec = core.recorder()
        pre = call.bag["ppre"]
        axes = call.args[1:]
        want = resolve_axes(pre, axes)
        op = call.qualname
        if want is None or len(want) >= pre["ndim"] and False:
            rec.mon("C09.projection.refusal")
            if call.exc is None:
                rec.fail(prop="C09", monitor="C09.projection.refusal", op=op, symptom="unknown / duplicate / empty axis list was not refused", diff=["not_refused"],
                         detail={"axes": repr(axes), "axis_names": pre["axis_names"]})
            return
        if call.exc is not None:
            rec.mon("C09.projection.refusal")
            if len(want) < pre["ndim"]:
                rec.fail(prop="C09", monitor="C09.projection.refusal", op=op, symptom=f"valid projection refused: {type(call.exc).__name__}", diff=["raised"],
                         detail={"axes": repr(axes), "error": str(call.exc)[:160], "shape": pre["frequencies"][1]})
            return
        if not is_hist(call.result):
            return
        now = snap.snapshot(call.self)
        if snap.diff(pre, now):
            rec.fail(prop="C09", monitor="C09.projection.post", op=op, symptom="projection modified its parent", diff=sorted(snap.diff(pre, now)), detail={})
        if set(call.kwargs) - {"name"}:
            rec.skip(self.name, "type_kwarg")  # internal use by the transformed classes
        check_projection(rec, op=op, pre=pre, res=snap.snapshot(call.result), axes=want)


class TMonitor(Handler):
    name = "C09.T"

    def before(self, call: Call):
        call.bag["tskip"] = call.depth != 0
        if not call.bag["tskip"]:
            call.bag["tpre"] = snap.snapshot(call.self)

    def after(self, call: Call):
        if call.bag.get("tskip") or call.exc is not None:
            return
        rec = core.recorder()
        rec.mon("C09.T.post")
        pre, r = call.bag["tpre"], snap.snapshot(call.result)
        bad = []
        if r["bins"] != list(reversed(pre["bins"])):
            bad.append("bins")
        if tuple(r["axis_names"]) != tuple(reversed(pre["axis_names"])):
            bad.append("axis_names")
        if not np.array_equal(_arr(r, "frequencies"), _arr(pre, "frequencies").T):
            bad.append("frequencies")
        if not np.array_equal(_arr(r, "errors2"), _arr(pre, "errors2").T):
            bad.append("errors2")
        if r.get("missed") != pre.get("missed"):
            bad.append("missed")
        if bad:
            rec.fail(prop="C09", monitor="C09.T.post", op="Histogram2D.T", symptom="T does not swap bins, names and contents consistently", diff=bad,
                     detail={"shape": pre["frequencies"][1], "names": pre["axis_names"]})
        if snap.diff(pre, snap.snapshot(call.self)):
            rec.fail(prop="C09", monitor="C09.T.post", op="Histogram2D.T", symptom="T modified its source", diff=["operand"], detail={})


class AccumulateMonitor(Handler):
    name = "C09.accumulate"

    def before(self, call: Call):
        call.bag["askip"] = call.depth != 0
        if not call.bag["askip"]:
            call.bag["apre"] = snap.snapshot(call.self)

    def after(self, call: Call):
        if call.bag.get("askip") or call.exc is not None:
            return
        rec = core.recorder()
        rec.mon("C09.accumulate.post")
        pre = call.bag["apre"]
        ax = resolve_axes(pre, call.args[1:2] or (call.kwargs.get("axis"),))
        if ax is None:
            return
        r = snap.snapshot(call.result)
        f = _arr(pre, "frequencies").astype(float)
        exp = np.zeros_like(f)
        run = np.zeros([n for i, n in enumerate(f.shape) if i != ax[0]])
        for i in range(f.shape[ax[0]]):
            run = run + np.take(f, i, axis=ax[0])
            idx = [slice(None)] * f.ndim
            idx[ax[0]] = i
            exp[tuple(idx)] = run
        got = _arr(r, "frequencies").astype(float)
        if got.shape != exp.shape or not np.allclose(got, exp, rtol=1e-12, atol=0):
            rec.fail(prop="C09", monitor="C09.accumulate.post", op="accumulate", symptom="accumulate is not the running sum along exactly the chosen axis", diff=["frequencies"],
                     detail={"axis": ax[0], "shape": f.shape})
        if r["bins"] != pre["bins"]:
            rec.fail(prop="C09", monitor="C09.accumulate.post", op="accumulate", symptom="accumulate changed the bins", diff=["bins"], detail={})


# ---------------------------------------------------------------------------------------------
# C10 merge_bins


def check_merge(rec: core.Recorder, *, op: str, pre: dict, res: dict, amount, axis: Optional[int], min_frequency=None, detail=None):
    rec.mon("C10.merge.post")
    detail = dict(detail or {})

    def fail(symptom, diff, **extra):
        rec.fail(prop="C10", monitor="C10.merge.post", op=op, symptom=symptom, diff=diff,
                 detail={**detail, "amount": amount, "axis": axis, "min_frequency": min_frequency, "shape": pre["frequencies"][1], **extra})

    nd = pre["ndim"]
    axes = [axis] if axis is not None else list(range(nd))
    f = _arr(pre, "frequencies").astype(float)
    e = _arr(pre, "errors2").astype(float)
    bins = [snap.arr_values(t) for t in pre["bins"]]
    rbins = [snap.arr_values(t) for t in res["bins"]]
    rf, re_ = _arr(res, "frequencies").astype(float), _arr(res, "errors2").astype(float)
    if len(rbins) != nd:
        fail("merge changed the number of axes", ["ndim"])
        return
    ef, ee = f, e
    for ax in range(nd):
        ob, nb = bins[ax], rbins[ax]
        if ax not in axes:
            if not np.array_equal(ob, nb):
                fail("merge_bins changed an axis it was not asked to merge", ["bins"], changed_axis=ax)
            continue
        # new bins must be unions of runs of adjacent old bins, in order, covering all old bins
        groups: List[Tuple[int, int]] = []
        i = 0
        okp = True
        for l, r in nb:
            if i >= len(ob) or ob[i, 0] != l:
                okp = False
                break
            j = i
            while j < len(ob) and ob[j, 1] != r:
                if j + 1 < len(ob) and ob[j, 1] != ob[j + 1, 0]:
                    okp = False  # a gap inside a merged bin
                    break
                j += 1
            if not okp or j >= len(ob):
                okp = False
                break
            groups.append((i, j + 1))
            i = j + 1
        if not okp or i != len(ob):
            fail("new bins are not unions of runs of adjacent old bins (or the outer edges changed / a gap was swallowed)", ["bins"], axis_checked=ax,
                 old=ob[:10], new=nb[:10])
            return
        if amount is not None and min_frequency is None:
            want = [(k, min(k + int(amount), len(ob))) for k in range(0, len(ob), int(amount))]
            if groups != want:
                fail("runs are not `amount` adjacent bins each (last run shorter)", ["bins"], axis_checked=ax, groups=groups[:8], expected=want[:8])
        ef = np.stack([np.take(ef, range(a, b), axis=ax).sum(axis=ax) for a, b in groups], axis=ax) if groups else ef
        ee = np.stack([np.take(ee, range(a, b), axis=ax).sum(axis=ax) for a, b in groups], axis=ax) if groups else ee
    _rtol = 1e-12  # the sums are kept as they are: a narrow content type that cannot hold them is widened
    if rf.shape != ef.shape or not np.allclose(rf, ef, rtol=_rtol, atol=0):
        fail("contents of the merged bins are not the sums of their runs", ["frequencies"], got=rf.ravel()[:10], expected=ef.ravel()[:10])
    if re_.shape != ee.shape or not np.allclose(re_, ee, rtol=_rtol, atol=0):
        fail("errors2 of the merged bins are not the sums of their runs", ["errors2"], got=re_.ravel()[:10], expected=ee.ravel()[:10])
    for k in ("underflow", "overflow", "inner_missed", "missed", "dtype", "name", "axis_names", "keep_missed"):
        if k in pre and pre[k] != res.get(k):
            if k == "dtype":
                # the sums of a run may not fit a compact content type: then (and only then) the type is widened losslessly
                if merge_widening_justified(pre["dtype"], res.get("dtype"), rf, re_):
                    continue
                if axis is None and nd > 1 and amount is not None and min_frequency is None and merge_all_axes_widening_justified(pre["dtype"], res.get("dtype"), f, e, int(amount)):
                    continue  # an intermediate stage (axis by axis) did not fit
            if k in ("underflow", "overflow", "inner_missed", "missed") and pre[k] != "nan" and res.get(k) != "nan" and float(pre[k]) == float(res.get(k)):
                continue
            fail(f"merge_bins changed {k}", [k], before=pre[k], after=res.get(k))


def merge_widening_justified(before, after, freq, err2) -> bool:
    """The sums of merged bins may not fit a compact content type, or not be numbers of it: then, and only then, the type
    is widened losslessly."""
    d0, d1 = np.dtype(before), np.dtype(after)
    if not np.can_cast(d0, d1):
        return False
    for a in (np.asarray(freq, dtype=np.float64), np.asarray(err2, dtype=np.float64)):
        with np.errstate(all="ignore"):
            if not np.array_equal(a.astype(d0).astype(np.float64), a, equal_nan=True):
                return True
    return False


def merge_all_axes_widening_justified(before, after, pre_freq, pre_err2, amount: int) -> bool:
    """merge_bins over all axes works axis by axis: the sums of an intermediate stage may be what the compact content type cannot
    hold, even if the final sums are numbers of it again."""
    d0 = np.dtype(before)
    if not np.can_cast(d0, np.dtype(after)):
        return False
    stages = [np.asarray(pre_freq, dtype=np.float64), np.asarray(pre_err2, dtype=np.float64)]
    for ax in range(stages[0].ndim):
        nxt = []
        for a in stages:
            n = a.shape[ax]
            groups = [np.take(a, range(k, min(k + amount, n)), axis=ax).sum(axis=ax) for k in range(0, n, amount)]
            nxt.append(np.stack(groups, axis=ax) if groups else a)
        stages = nxt
        for a in stages:
            with np.errstate(all="ignore"):
                if not np.array_equal(a.astype(d0).astype(np.float64), a, equal_nan=True):
                    return True
    return False


class MergeMonitor(Handler):
    name = "C10.merge"

    def before(self, call: Call):
        call.bag["mskip"] = call.depth != 0 or not is_hist(call.self)
        if not call.bag["mskip"]:
            call.bag["mpre"] = snap.snapshot(call.self)

    def after(self, call: Call):
        if call.bag.get("mskip"):
            return
        rec = core.recorder()
        pre = call.bag["mpre"]
        args = call.args[1:]
        amount = args[0] if args else call.kwargs.get("amount")
        minf = call.kwargs.get("min_frequency")
        axis = call.kwargs.get("axis")
        inplace = bool(call.kwargs.get("inplace", False))
        ax = None
        if axis is not None:
            r = resolve_axes(pre, (axis,))
            if r is None:
                return
            ax = r[0]
        op = call.qualname
        valid_amount = amount is not None and isinstance(amount, (int, np.integer, float)) and not isinstance(amount, bool) and float(amount) == int(amount) and amount >= 1
        integral_float = valid_amount and isinstance(amount, float)  # merge_bins(2.0): accepted or refused, both are fine (soundness rule 2)
        if call.exc is not None and integral_float:
            return
        if call.exc is not None:
            if inplace:
                now = snap.snapshot(call.self)
                from ..world import atomic_diff

                d = atomic_diff(pre, now) | ({"bins"} if now.get("bins") != pre.get("bins") else set())
                if d:
                    rec.mon("C10.merge.post")
                    rec.fail(prop="C10", monitor="C10.merge.post", op=op, symptom="refused in-place merge changed the histogram", diff=sorted(d), detail={"amount": repr(amount)})
            # a refusal is only wrong if nothing forbids the merge: integral amount >= 1 and no gap inside any run
            rec.mon("C10.merge.refusal")
            if valid_amount and minf is None and not _run_crosses_gap(pre, int(amount), ax):
                rec.fail(prop="C10", monitor="C10.merge.refusal", op=op, symptom=f"valid merge refused: {type(call.exc).__name__}", diff=["raised"],
                         detail={"amount": repr(amount), "axis": ax, "error": str(call.exc)[:160]})
            # a threshold merge over axes without gaps has nothing to refuse either
            if amount is None and isinstance(minf, (int, float, np.integer, np.floating)) and not isinstance(minf, bool) and np.isfinite(float(minf)) and float(minf) >= 0:
                try:
                    all_bins = [snap.arr_values(t) for t in pre["bins"]] if isinstance(pre["bins"], list) else None
                    axes_ = range(len(all_bins)) if ax is None else [ax]
                    gapless = all_bins is not None and all(len(all_bins[i]) >= 1 and np.array_equal(all_bins[i][1:, 0], all_bins[i][:-1, 1]) for i in axes_)
                except Exception:
                    gapless = False
                if gapless:
                    rec.fail(prop="C10", monitor="C10.merge.refusal", op=op, symptom=f"valid threshold merge (min_frequency) refused: {type(call.exc).__name__}", diff=["raised"],
                             detail={"min_frequency": repr(minf), "axis": ax, "error": str(call.exc)[:160]})
            return
        if amount is not None and not valid_amount:
            rec.mon("C10.merge.refusal")
            rec.fail(prop="C10", monitor="C10.merge.refusal", op=op, symptom="non-integral / non-positive amount was not refused", diff=["not_refused"], detail={"amount": repr(amount)})
            return
        if valid_amount and minf is None and _run_crosses_gap(pre, int(amount), ax):
            rec.mon("C10.merge.refusal")
            rec.fail(prop="C10", monitor="C10.merge.refusal", op=op, symptom="merging across a gap was not refused", diff=["not_refused"], detail={"amount": repr(amount), "axis": ax})
            return
        res_obj = call.self if inplace else call.result
        if not is_hist(res_obj):
            return
        if not inplace:
            now = snap.snapshot(call.self)
            if snap.diff(pre, now):
                rec.mon("C10.merge.post")
                rec.fail(prop="C10", monitor="C10.merge.post", op=op, symptom="merge_bins modified the original although inplace was not requested",
                         diff=sorted(snap.diff(pre, now)), detail={})
        if amount is None and minf is None:
            return
        check_merge(rec, op=op, pre=pre, res=snap.snapshot(res_obj), amount=amount if minf is None else None, axis=ax, min_frequency=minf)


def _run_crosses_gap(pre: dict, amount: int, axis: Optional[int]) -> bool:
    axes = [axis] if axis is not None else list(range(pre["ndim"]))
    for ax in axes:
        b = snap.arr_values(pre["bins"][ax])
        for k in range(0, len(b), amount):
            run = b[k:k + amount]
            if len(run) > 1 and not np.array_equal(run[1:, 0], run[:-1, 1]):
                return True
    return False


# ---------------------------------------------------------------------------------------------
# C11 indexing


def check_1d_index(rec: core.Recorder, *, op: str, pre: dict, index, result, exc, h=None):
    """The oracle is numpy indexing applied to the source's bins / frequencies / errors2."""
    rec.mon("C11.index.post")
    bins = snap.arr_values(pre["bins"][0])
    f, e = _arr(pre, "frequencies"), _arr(pre, "errors2")
    n = len(bins)

    def fail(symptom, diff, **extra):
        rec.fail(prop="C11", monitor="C11.index.post", op=op, symptom=symptom, diff=diff, detail={"index": repr(index)[:120], "n": n, **extra})

    # what must be refused
    must_refuse = False
    unordered = False
    if isinstance(index, np.ndarray) and index.ndim == 0 and index.dtype.kind in "iu":
        index = int(index)  # numpy: a 0-d integer array is an integer index
    if isinstance(index, (int, np.integer)) and not isinstance(index, bool):
        must_refuse = not (-n <= index < n)
    elif isinstance(index, slice):
        must_refuse = index.step is not None and index.step < 0
    elif isinstance(index, np.ndarray) and index.dtype == bool:
        must_refuse = index.shape != (n,)
    elif isinstance(index, np.ndarray) and index.dtype.kind in "iu":
        must_refuse = bool(index.size and (index.max() >= n or index.min() < -n))
        norm = np.where(index < 0, index + n, index)
        unordered = bool(index.size > 1 and np.any(np.diff(norm) <= 0))
    else:
        return
    if must_refuse:
        if exc is None:
            fail("invalid index expression was not refused", ["not_refused"])
        return
    if exc is not None:
        if isinstance(index, slice) and index.step == 0:
            return  # a zero step is no selection at all
        if isinstance(index, slice) and len(range(*index.indices(n))) == 0:
            return  # empty selections may be refused
        if isinstance(index, np.ndarray) and (index.size == 0 or (index.dtype == bool and not index.any())):
            return
        fail(f"valid index expression refused: {type(exc).__name__}", ["raised"], error=str(exc)[:120])
        return
    if isinstance(index, (int, np.integer)):
        if not (isinstance(result, tuple) and len(result) == 2):
            fail("integer index does not return that bin's edges and content", ["return"], got=type(result).__name__)
            return
        eb, ec = result
        if not (np.array_equal(np.asarray(eb, dtype=float), bins[index]) and float(ec) == float(f[index])):
            fail("integer index does not return that bin's edges and content", ["return"], got=[np.asarray(eb).tolist(), float(ec)], expected=[bins[index].tolist(), float(f[index])])
        return
    if not is_hist(result):
        fail("index expression did not return a histogram", ["return"])
        return
    r = snap.snapshot(result)
    idx = index
    mech = None
    if isinstance(index, np.ndarray) and index.dtype.kind in "iu":
        idx = np.unique(np.where(index < 0, index + n, index))  # "index arrays are taken in increasing order"
    eb, ef, ee = bins[idx], f[idx], e[idx]
    rb = snap.arr_values(r["bins"][0]) if isinstance(r["bins"], list) else None
    if rb is None or rb.shape != eb.shape or not np.array_equal(rb, eb):
        rec.fail(prop="C11", monitor="C11.index.post", op=op, symptom="bins of the selection are not the correspondingly indexed bins", diff=["bins"], mechanism=mech,
                 detail={"index": repr(index)[:120], "got": None if rb is None else rb[:8], "expected": eb[:8]})
    if not np.array_equal(_arr(r, "frequencies").astype(float), ef.astype(float)):
        rec.fail(prop="C11", monitor="C11.index.post", op=op, symptom="contents of the selection are not the correspondingly indexed contents", diff=["frequencies"], mechanism=mech,
                 detail={"index": repr(index)[:120], "got": _arr(r, "frequencies")[:8], "expected": ef[:8]})
    if not np.array_equal(_arr(r, "errors2").astype(float), ee.astype(float)):
        rec.fail(prop="C11", monitor="C11.index.post", op=op, symptom="errors2 of the selection are not the correspondingly indexed errors2", diff=["errors2"], mechanism=mech,
                 detail={"index": repr(index)[:120]})
    if r["dtype"] != pre["dtype"]:
        fail("selection changed the dtype", ["dtype"])
    # under / overflow bookkeeping
    if isinstance(index, slice):
        start, stop, step = index.indices(n)
        if step == 1 and stop > start and pre["keep_missed"] and pre["underflow"] != "nan" and pre["overflow"] != "nan":
            cons = np.array_equal(bins[1:, 0], bins[:-1, 1])
            if cons:
                tot0 = float(f.astype(float).sum()) + pre["underflow"] + pre["overflow"]
                if r["underflow"] == "nan" or r["overflow"] == "nan":
                    fail("contiguous slice lost the under/overflow bookkeeping (NaN)", ["underflow", "overflow"])
                else:
                    if f.dtype.kind in "iu" and float(pre["underflow"]).is_integer() and float(pre["overflow"]).is_integer():
                        # one rounding only (the snapshot holds floats): exact integer sums first
                        try:
                            bu, bo = (int(h.underflow), int(h.overflow)) if h is not None else (int(pre["underflow"]), int(pre["overflow"]))
                        except (TypeError, ValueError, OverflowError):
                            bu, bo = int(pre["underflow"]), int(pre["overflow"])
                        eu = float(bu + int(f[:start].astype(object).sum() if start else 0))
                        eo = float(bo + int(f[stop:].astype(object).sum() if stop < n else 0))
                    else:
                        eu = pre["underflow"] + float(f[:start].astype(float).sum())
                        eo = pre["overflow"] + float(f[stop:].astype(float).sum())
                        rdt_ = np.dtype(r["dtype"])
                        if rdt_.kind == "f" and rdt_.itemsize < 8:
                            # the exact sum, rounded once into the (compact) content type that also holds the missed values
                            with np.errstate(all="ignore"):
                                eu, eo = float(np.asarray(eu).astype(rdt_)), float(np.asarray(eo).astype(rdt_))
                    if r["underflow"] != eu or r["overflow"] != eo:
                        fail("contents cut off by a contiguous slice were not added to underflow / overflow", ["underflow", "overflow"],
                             got=[r["underflow"], r["overflow"]], expected=[eu, eo])
                    # integer contents: the bookkeeping is exact integer arithmetic (also beyond 2**53, where a detour through float64 rounds)
                    if h is not None and f.dtype.kind in "iu" and np.dtype(r["dtype"]).kind in "iu":
                        try:
                            xu = int(h.underflow) + int(f[:start].astype(object).sum() if start else 0)
                            xo = int(h.overflow) + int(f[stop:].astype(object).sum() if stop < n else 0)
                            gu, go = int(result.underflow), int(result.overflow)
                            top = int(np.iinfo(np.dtype(r["dtype"])).max)
                            if xu <= top and xo <= top and (gu != xu or go != xo):
                                fail("under / overflow of a contiguous slice of integer contents are not the exact integer sums", ["underflow", "overflow"], got=[gu, go], expected=[xu, xo])
                        except (TypeError, ValueError, OverflowError):
                            pass
                    tot1 = float(_arr(r, "frequencies").astype(float).sum()) + r["underflow"] + r["overflow"]
                    rdt_ = np.dtype(r["dtype"])
                    rel_ = 1e-9 if not (rdt_.kind == "f" and rdt_.itemsize < 8) else 2 * float(np.finfo(rdt_).eps)  # (two roundings into a compact float type)
                    if abs(tot1 - tot0) > rel_ * (abs(tot0) + 1):
                        fail("total + underflow + overflow not conserved by a contiguous slice", ["total"], before=tot0, after=tot1)
    else:
        contiguous = False
        if isinstance(idx, np.ndarray):
            sel = np.flatnonzero(idx) if idx.dtype == bool else np.where(idx < 0, idx + n, idx)
            contiguous = sel.size == n and np.array_equal(sel, np.arange(n))
        if not contiguous and result.keep_missed and not (r["underflow"] == "nan" and r["overflow"] == "nan"):
            fail("non-contiguous selection reports known under/overflow", ["underflow", "overflow"], got=[r["underflow"], r["overflow"]])


def check_nd_select(rec: core.Recorder, *, op: str, pre: dict, index: tuple, result, exc):
    """index: tuple of ints / slices (already padded to the given length)."""
    rec.mon("C11.index.post")
    nd = pre["ndim"]
    f, e = _arr(pre, "frequencies"), _arr(pre, "errors2")
    bins = [snap.arr_values(t) for t in pre["bins"]]

    def fail(symptom, diff, **extra):
        rec.fail(prop="C11", monitor="C11.index.post", op=op, symptom=symptom, diff=diff, detail={"index": repr(index)[:160], "shape": f.shape, **extra})

    must_refuse = len(index) > nd
    for ax, ix in enumerate(index[:nd]):
        if isinstance(ix, (int, np.integer)) and not isinstance(ix, bool):
            if not (-f.shape[ax] <= ix < f.shape[ax]):
                must_refuse = True
        elif isinstance(ix, slice):
            if ix.step is not None and ix.step < 0:
                must_refuse = True
        else:
            return
    if must_refuse:
        if exc is None:
            fail("invalid index expression was not refused", ["not_refused"])
        return
    if exc is not None:
        if any(isinstance(ix, slice) and ix.step is not None for ix in index):
            return
        if any(isinstance(ix, slice) and len(range(*ix.indices(f.shape[ax]))) == 0 for ax, ix in enumerate(index)):
            return  # empty selections may be refused
        fail(f"valid index expression refused: {type(exc).__name__}", ["raised"], error=str(exc)[:120])
        return
    full = tuple(index) + (slice(None),) * (nd - len(index))
    if all(isinstance(ix, (int, np.integer)) for ix in full):
        try:
            eb, ec = result
            okb = all(float(eb[ax][0]) == float(bins[ax][full[ax], 0]) and float(eb[ax][1]) == float(bins[ax][full[ax], 1]) for ax in range(nd))
            if not okb or float(ec) != float(f[full]):
                fail("full integer index does not return the cell's edges and content", ["return"])
        except Exception:
            fail("full integer index does not return (edges, content)", ["return"])
        return
    if not is_hist(result):
        fail("index expression did not return a histogram", ["return"])
        return
    r = snap.snapshot(result)
    ef, ee = f[full], e[full]
    kept = [ax for ax, ix in enumerate(full) if isinstance(ix, slice)]
    ebins = [bins[ax][full[ax]] for ax in kept]
    rb = [snap.arr_values(t) for t in r["bins"]] if isinstance(r["bins"], list) else None
    if rb is None or len(rb) != len(ebins) or any(a.shape != b.shape or not np.array_equal(a, b) for a, b in zip(rb, ebins)):
        fail("bins of the selection are not the correspondingly indexed bins of the kept axes", ["bins"], got=None if rb is None else [b.shape for b in rb], expected=[b.shape for b in ebins])
    rf = _arr(r, "frequencies")
    if rf.shape != ef.shape or not np.array_equal(rf.astype(float), ef.astype(float)):
        fail("contents of the selection are not the correspondingly indexed contents", ["frequencies"], got=rf.shape, expected=ef.shape)
    re_ = _arr(r, "errors2")
    if re_.shape != ee.shape or not np.array_equal(re_.astype(float), ee.astype(float)):
        fail("errors2 of the selection are not the correspondingly indexed errors2", ["errors2"])
    names = tuple(pre["axis_names"][ax] for ax in kept)
    if tuple(r["axis_names"]) != names:
        fail("integer indices did not drop exactly their axes' names", ["axis_names"], got=r["axis_names"], expected=names)


class GetitemMonitor(Handler):
    """__getitem__ and select at depth 0."""

    name = "C11.getitem"

    def __init__(self, method: str):
        self.method = method

    def before(self, call: Call):
        call.bag["gskip"] = call.depth != 0 or not is_hist(call.self)
        if not call.bag["gskip"]:
            call.bag["gpre"] = snap.snapshot(call.self)

    def after(self, call: Call):
        if call.bag.get("gskip"):
            return
        rec = core.recorder()
        pre = call.bag["gpre"]
        h = call.self
        op = call.qualname
        now = snap.snapshot(h)
        if snap.diff(pre, now):
            rec.mon("C11.index.post")
            rec.fail(prop="C11", monitor="C11.index.post", op=op, symptom="indexing modified the source histogram", diff=sorted(snap.diff(pre, now)), detail={})
        if self.method == "__getitem__":
            index = call.args[1] if len(call.args) > 1 else None
            if pre["ndim"] == 1 and "underflow" in pre:
                check_1d_index(rec, op=op, pre=pre, index=index, result=call.result, exc=call.exc, h=call.self)
            else:
                if isinstance(index, (int, np.integer, slice)):
                    index = (index,)
                if isinstance(index, tuple):
                    check_nd_select(rec, op=op, pre=pre, index=index, result=call.result, exc=call.exc)
        else:
            axis = call.args[1] if len(call.args) > 1 else call.kwargs.get("axis")
            index = call.args[2] if len(call.args) > 2 else call.kwargs.get("index")
            if pre["ndim"] == 1 and "underflow" in pre:
                if axis == 0:
                    check_1d_index(rec, op=op, pre=pre, index=index, result=call.result, exc=call.exc, h=call.self)
            else:
                ax = resolve_axes(pre, (axis,))
                if ax is None:
                    rec.mon("C11.index.post")
                    if call.exc is None:
                        rec.fail(prop="C11", monitor="C11.index.post", op=op, symptom="select on an unknown axis was not refused", diff=["not_refused"], detail={"axis": repr(axis)})
                    return
                full = tuple([slice(None)] * ax[0] + [index])
                check_nd_select(rec, op=op, pre=pre, index=full, result=call.result, exc=call.exc)


def attach_structure_monitors(which=("projection", "merge", "index")):
    from physt.histogram1d import Histogram1D
    from physt.histogram_base import HistogramBase
    from physt.histogram_nd import Histogram2D, HistogramND
    from .. import attach

    if "projection" in which:
        attach.wrap(HistogramND, "projection", ProjectionMonitor())
        attach.wrap(Histogram2D, "T", TMonitor())
        attach.wrap(HistogramND, "accumulate", AccumulateMonitor())
    if "merge" in which:
        attach.wrap(HistogramBase, "merge_bins", MergeMonitor())
    if "index" in which:
        for cls in (Histogram1D, HistogramND):
            attach.wrap(cls, "__getitem__", GetitemMonitor("__getitem__"))
            attach.wrap(cls, "select", GetitemMonitor("select"))


# ---------------------------------------------------------------------------------------------
# derived histograms stay what they were when the source later grows (and the other way round)


def check_detached(rec: core.Recorder, *, prop: str, monitor: str, source, derived, grow_source: bool, point, op: str, detail=None):
    """A projection / selection is a histogram of its own: growing the adaptive bins of one of (source, derived)
    by filling `point` far outside leaves the other exactly as it was, and still well-formed (bins vs contents).
    `point` is a coordinate tuple for the object that is filled."""
    from ..attach import quiet

    rec.mon(monitor)
    grown, other = (source, derived) if grow_source else (derived, source)
    with quiet():
        before = snap.snapshot(other)
        shape_before = tuple(grown.shape)
    try:
        grown.fill(point if grown.ndim > 1 else (point[0] if isinstance(point, (tuple, list)) else point))
    except Exception as e:
        rec.fail(prop=prop, monitor=monitor, op=op, symptom=f"filling after a derivation raised {type(e).__name__}", diff=["raised"],
                 detail={**(detail or {}), "grown": "source" if grow_source else "derived", "error": str(e)[:160]})
        return False
    with quiet():
        after = snap.snapshot(other)
        dd = snap.diff(before, after)
        probs = snap.wellformed_problems(other) + snap.wellformed_problems(grown)
        grew = tuple(grown.shape) != shape_before
    if dd or probs:
        rec.fail(prop=prop, monitor=monitor, op=op, symptom="growing one of (source, derived histogram) changed or corrupted the other: they share state",
                 diff=sorted(dd) or ["wellformed"], detail={**(detail or {}), "grown": "source" if grow_source else "derived", "problems": probs[:4]})
        return False
    return grew


import random
import warnings

def detached_workload(ctx, index, rng, *, prop: str, monitor: str, inspect=None, kinds=("nd", "nd", "nd_switch", "cylindrical", "polar", "spherical")):
    """A projection stays the marginal it was: it shares no bins with its source. Fixed-width axes that are (or are
    later switched to) adaptive grow in place - growing the source must not reach the projection, nor the reverse."""
    import physt
    from physt import special_histograms as sp

    rec = ctx.rec
    kind = rng.choice(list(kinds))
    n = rng.randint(5, 40)
    adaptive_now = kind != "nd_switch"
    with warnings.catch_warnings():
        warnings.simplefilter("ignore")
        if kind.startswith("nd"):
            d = rng.choice([2, 3])
            rows = np.array([[rng.uniform(0, 4) for _ in range(d)] for _ in range(n)])
            h = physt.h(rows, "fixed_width", bin_width=rng.choice([0.5, 1.0, 2.0]), adaptive=adaptive_now, axis_names=[f"a{i}" for i in range(d)])
            far = [rng.choice([9.0, -7.5, 12.25]) for _ in range(d)]
        else:
            pts = np.array([[rng.gauss(0, 1) for _ in range(3)] for _ in range(n)])
            if kind == "cylindrical":
                h = sp.cylindrical(pts, rho_bins="fixed_width", z_bins="fixed_width", bin_width=0.5, adaptive=True)
                far = [rng.choice([6.0, 9.5]), 0.3, rng.choice([7.0, -6.5])]
            elif kind == "polar":
                h = sp.polar(pts[:, 0], pts[:, 1], radial_bins="fixed_width", bin_width=0.5, adaptive=True)
                far = [rng.choice([8.0, 10.0]), 0.4]
            else:
                h = sp.spherical(pts, radial_bins="fixed_width", bin_width=0.5, adaptive=True)
                far = [rng.choice([8.0, 11.0]), 0.3, 0.4]
            d = h.ndim
        k = rng.randint(1, d - 1)
        axes = sorted(rng.sample(range(d), k))
        how = rng.choice(["projection", "projection", "select"])
        try:
            if how == "projection":
                g = h.projection(*axes)
            else:
                drop = rng.randrange(d)
                axes = [a for a in range(d) if a != drop]
                g = h.select(drop, rng.randrange(h.shape[drop]))
        except Exception as e:
            rec.fail(prop=prop, monitor=monitor, op=f"{kind}.{how}", symptom=f"derivation raised {type(e).__name__}", diff=["raised"], detail={"error": str(e)[:160]})
            return
        is_transformed = not kind.startswith("nd")
        # transformed sources take cartesian points; their derived objects are grown only through the source here
        grow_source = True if is_transformed else rng.random() < 0.5
        target = h if grow_source else g
        if not adaptive_now:
            try:
                target.set_adaptive(True)
            except Exception:
                rec.case(["detached", kind, "no_adaptive"], False, cls=f"detached/{kind}/refused")
                return
        if is_transformed:
            point = [far[0], 0.3, far[2] if len(far) > 2 else 0.0][: (2 if kind == "polar" else 3)]
        else:
            point = list(far) if grow_source else [far[a] for a in axes]
        grew = check_detached(rec, prop=prop, monitor=monitor, source=h, derived=g, grow_source=grow_source, point=tuple(point),
                                        op=f"{kind}.{how}{tuple(axes)} then fill {'source' if grow_source else 'derived'}", detail={"kind": kind, "axes": axes})
        if inspect is not None and grew:
            other = g if grow_source else h
            from ..attach import quiet
            with quiet():
                try:
                    probs = inspect(other)
                except Exception as e:
                    probs = [f"inspection raised {type(e).__name__}: {str(e)[:100]}"]
            if probs:
                rec.fail(prop=prop, monitor=monitor, op=f"{kind}.{how}{tuple(axes)} then fill {'source' if grow_source else 'derived'}",
                         symptom="the histogram that was not touched no longer describes itself consistently", diff=["geometry"], detail={"problems": probs[:4]})
    rec.case(["detached", kind, how, axes, grow_source, far], bool(grew), cls=f"detached/{kind}/{how}/{'source' if grow_source else 'derived'}")


