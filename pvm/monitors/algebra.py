"""Per-call monitors for histogram arithmetic: addition / subtraction (C05), scaling / division /
normalisation (C06), with the dtype rules of C13 and the statistics rules of C14 evaluated on the
same observed calls (records carry the property they belong to).
"""
from __future__ import annotations

import math
from typing import Any, Dict, List, Optional, Tuple

import numpy as np

from .. import core, model, snapshot as snap
from ..attach import Call, Handler
from ..world import is_hist

STAT_FIELDS = ("sum", "sum2", "min", "max", "weight", "median")


def _eps(dtype) -> float:
    d = np.dtype(dtype)
    return float(np.finfo(d).eps) if d.kind == "f" else 0.0


def _missed_keys(s: dict) -> Tuple[str, ...]:
    return ("underflow", "overflow", "inner_missed") if "underflow" in s else ("missed",)


def _vals(s: dict, key: str) -> np.ndarray:
    return snap.arr_values(s[key]).astype(np.float64)


def same_bins_exact(a: dict, b: dict) -> bool:
    return a["bins"] == b["bins"]


def bins_clearly_different(a: dict, b: dict) -> bool:
    """Different beyond any tolerance the library may apply (different counts, or edges far apart)."""
    if not isinstance(a["bins"], list) or not isinstance(b["bins"], list) or len(a["bins"]) != len(b["bins"]):
        return True
    for ta, tb in zip(a["bins"], b["bins"]):
        if ta[1] != tb[1]:
            return True
        va, vb = snap.arr_values(ta), snap.arr_values(tb)
        if va.size and np.any(np.abs(va - vb) > 1e-3 * (np.abs(va) + np.abs(vb)) + 1e-6):
            return True
    return False


def stats_tuple(s: dict) -> Optional[Tuple]:
    st = s.get("statistics")
    if st is None or (isinstance(st, tuple) and st and st[0] == "error"):
        return None
    return st


def stats_all_nan(st) -> bool:
    return all(x == "nan" for x in st[:5])


def _n(x) -> float:
    return float("nan") if x == "nan" else float(x)


def _close(a, b, scale, rel=1e-9) -> bool:
    a, b = _n(a), _n(b)
    if math.isnan(a) or math.isnan(b):
        return math.isnan(a) and math.isnan(b)
    if math.isnan(scale) or math.isinf(scale):
        scale = 0.0
    return model.close(a, b, scale, rel)


# ---------------------------------------------------------------------------------------------
# addition / subtraction


def check_add(rec: core.Recorder, *, op: str, a: dict, b: dict, r: dict, sign: int, inplace: bool, a_adaptive: bool,
              detail: Optional[dict] = None):
    """a, b: operand snapshots before the call; r: snapshot of the result (for in-place forms: of the target after)."""
    prop = "C05"
    rec.mon("C05.add.post")
    detail = dict(detail or {})

    def fail(symptom, diff, prop_=prop, monitor="C05.add.post", **extra):
        rec.fail(prop=prop_, monitor=monitor, op=op, symptom=symptom, diff=diff, detail={**detail, **extra})

    same = same_bins_exact(a, b)
    ma, mb, mr = snap.interval_map(a), snap.interval_map(b), snap.interval_map(r)
    if ma is None or mb is None:
        rec.skip("C05.add.post", "operand_illformed")
        return
    if mr is None:
        fail("result of the addition is ill-formed", ["frequencies"])
        return
    rd = np.dtype(r["dtype"])
    exact = rd.itemsize >= 8 and np.dtype(a["dtype"]).itemsize >= 8 and np.dtype(b["dtype"]).itemsize >= 8
    tol = max(_eps(rd), _eps(a["dtype"]), _eps(b["dtype"])) * 4
    keys = set(ma) | set(mb) | set(mr)
    bad_f = bad_e = None
    for k in keys:
        fa, ea = ma.get(k, (0.0, 0.0))
        fb, eb = mb.get(k, (0.0, 0.0))
        fr, er = mr.get(k, (0.0, 0.0))
        ef, ee = fa + sign * fb, ea + eb
        if exact:
            okf = fr == ef or (abs(fr - ef) <= 2 * np.spacing(max(abs(fa), abs(fb), abs(ef))))
            oke = er == ee or (abs(er - ee) <= 2 * np.spacing(max(abs(ea), abs(eb), abs(ee))))
        else:
            okf = abs(fr - ef) <= tol * (abs(fa) + abs(fb)) + 1e-12
            oke = abs(er - ee) <= tol * (abs(ea) + abs(eb)) + 1e-12
        if not okf and bad_f is None:
            bad_f = (k, fa, fb, fr)
        if not oke and bad_e is None:
            bad_e = (k, ea, eb, er)
    if bad_f:
        fail("contents of the result are not the interval-wise " + ("sum" if sign > 0 else "difference") + " of the operands", ["frequencies"],
             interval=str(bad_f[0]), a=bad_f[1], b=bad_f[2], result=bad_f[3])
    if bad_e:
        fail("errors2 of the result are not the interval-wise sum of the operands' errors2", ["errors2"], interval=str(bad_e[0]), a=bad_e[1], b=bad_e[2], result=bad_e[3])
    # bins of the result
    if same:
        if r["bins"] != a["bins"]:
            fail("adding histograms with equal bins changed the bins", ["bins"])
        for k in _missed_keys(a):
            if k not in b or k not in r:
                continue
            va, vb, vr = a[k], b[k], r[k]
            if not a["keep_missed"] or not b.get("keep_missed", True):
                # one operand did not keep track of what it missed: the result cannot know either (in either order)
                if r.get("keep_missed", False) and k in ("underflow", "overflow") and vr != "nan":
                    fail(f"{k}: an operand that does not keep its missed values was added, yet the result reports a known number", [k, "keep_missed"], a=va, b=vb, result=vr,
                         keep_missed=[a["keep_missed"], b.get("keep_missed", True), r.get("keep_missed")])
                continue
            if va == "nan" or vb == "nan":
                if vr != "nan":
                    fail(f"{k}: unknown (NaN) + value must stay unknown", [k], a=va, b=vb, result=vr)
                continue
            ev = va + sign * vb
            good = (vr == ev) if exact else (vr != "nan" and abs(vr - ev) <= tol * (abs(va) + abs(vb)) + 1e-12)
            if not good:
                fail(f"{k} of the result is not the " + ("sum" if sign > 0 else "difference") + " of the operands'", [k], a=va, b=vb, result=vr)
    elif a_adaptive:
        # union of both ranges on the common grid, nothing lost
        for ax, (ta, tb, tr) in enumerate(zip(a["bins"], b["bins"], r["bins"])):
            ba, bb, br = snap.arr_values(ta), snap.arr_values(tb), snap.arr_values(tr)
            if len(br) == 0:
                continue
            if len(br) > 1 and not np.array_equal(br[1:, 0], br[:-1, 1]):
                fail("bins of an adaptive sum are not contiguous", ["bins"], axis=ax)
            edges_r = set(br.ravel().tolist())
            for name, bo in (("left", ba), ("right", bb)):
                if len(bo) and not set(bo.ravel().tolist()) <= edges_r:
                    fail(f"edges of the {name} operand are not edges of the adaptive sum (not the same grid)", ["bins"], axis=ax)
            lo = min([x[0, 0] for x in (ba, bb) if len(x)], default=None)
            hi = max([x[-1, 1] for x in (ba, bb) if len(x)], default=None)
            if lo is not None and (br[0, 0] != lo or br[-1, 1] != hi):
                fail("bins of an adaptive sum do not span exactly the union of both ranges", ["bins", "span"], axis=ax, expected=[lo, hi], got=[br[0, 0], br[-1, 1]])
        ta_, tb_, tr_ = float(_vals(a, "frequencies").sum()), float(_vals(b, "frequencies").sum()), float(_vals(r, "frequencies").sum())
        # totals are sums over differently shaped arrays: compared within rounding (the interval-wise check above is exact)
        if abs(tr_ - (ta_ + sign * tb_)) > 1e-9 * (abs(ta_) + abs(tb_)) + 1e-300:
            fail("total of an adaptive sum is not the sum of the totals (something was lost)", ["total"], a=ta_, b=tb_, result=tr_)
        for k in _missed_keys(b):
            vb = b.get(k)
            if vb not in (0, 0.0, "nan", None) and b.get("keep_missed", True):
                fail("adaptive addition accepted an operand with missed values and lost them", [k], b_missed=vb, result=r.get(k))
    # C13: numpy type promotion
    rec.mon("C13.add.dtype")
    want = np.promote_types(np.dtype(a["dtype"]), np.dtype(b["dtype"]))
    if rd != want:
        rec.fail(prop="C13", monitor="C13.add.dtype", op=op, symptom="dtype of a histogram (+/-) histogram is not numpy's type promotion of the operands",
                 diff=["dtype"], detail={**detail, "a": a["dtype"], "b": b["dtype"], "result": r["dtype"], "expected": str(want)})
    # C14: statistics add (or are invalidated by subtraction)
    sa, sb, sr = stats_tuple(a), stats_tuple(b), stats_tuple(r)
    if sa is not None and sb is not None and sr is not None:
        rec.mon("C14.add.stats")
        if sign < 0:
            if not stats_all_nan(sr):
                rec.fail(prop="C14", monitor="C14.add.stats", op=op, symptom="statistics after subtraction are numbers instead of invalid (NaN)",
                         diff=["statistics"], detail={**detail, "result": sr})
        elif stats_all_nan(sa) or stats_all_nan(sb):
            # invalid + anything is invalid in every field (min / max included: repaired as D84, judged since)
            if not all(sr[i] == "nan" for i in (0, 1, 2, 3, 4)):
                rec.fail(prop="C14", monitor="C14.add.stats", op=op, symptom="invalid statistics + anything must stay invalid", diff=["statistics"],
                         detail={**detail, "a": sa, "b": sb, "result": sr})
        else:
            na, nb = [_n(x) for x in sa], [_n(x) for x in sb]
            exp = (na[0] + nb[0], na[1] + nb[1], min(na[2], nb[2]), max(na[3], nb[3]), na[4] + nb[4])
            scales = (abs(na[0]) + abs(nb[0]), abs(na[1]) + abs(nb[1]), 0, 0, abs(na[4]) + abs(nb[4]))
            if any(math.isnan(x) for x in na[:5] + nb[:5]):
                exp = None  # partially invalid operands (overflowed narrow sums): not judged
            for i, name in enumerate(STAT_FIELDS[:5]):
                if exp is None:
                    break
                good = _close(sr[i], exp[i], scales[i])
                if not good:
                    rec.fail(prop="C14", monitor="C14.add.stats", op=op, symptom=f"statistics.{name} of a sum is not the combination of the operands'",
                             diff=["statistics"], detail={**detail, "a": sa, "b": sb, "result": sr, "field": name})
                    break


class AddMonitor(Handler):
    """__add__, __radd__, __iadd__, __sub__, __isub__ at depth 0 with two histogram operands."""

    name = "C05.add"

    def __init__(self, method: str):
        self.method = method
        self.sign = -1 if "sub" in method else 1
        self.inplace = method in ("__iadd__", "__isub__")

    def before(self, call: Call):
        call.bag["askip"] = None
        if call.depth != 0:
            call.bag["askip"] = "nested"
            return
        a = call.self
        b = call.args[1] if len(call.args) > 1 else None
        try:
            from physt.config import config

            free = bool(config.free_arithmetics)
        except Exception:
            free = False
        call.bag["afree"] = free
        if not is_hist(a):
            call.bag["askip"] = "self"
            return
        call.bag["a"] = snap.snapshot(a)
        call.bag["a_adaptive"] = bool(a.is_adaptive())
        call.bag["a_problems"] = snap.wellformed_problems(a)
        if is_hist(b):
            call.bag["b"] = snap.snapshot(b)
            call.bag["b_problems"] = snap.wellformed_problems(b)
        else:
            call.bag["b"] = None
            call.bag["b_obj"] = b

    def after(self, call: Call):
        rec = core.recorder()
        if call.bag.get("askip"):
            return
        a, b = call.bag["a"], call.bag["b"]
        free = call.bag["afree"]
        op = call.qualname
        if b is None:
            # non-histogram operand: refused outside free arithmetics (0 + h for sum() is the documented exception)
            other = call.bag.get("b_obj")
            if self.method == "__radd__" and isinstance(other, (int, float)) and other == 0:
                return
            rec.mon("C05.add.refusal")
            if not free and call.exc is None:
                rec.fail(prop="C05", monitor="C05.add.refusal", op=op, symptom="non-histogram operand accepted outside free-arithmetics mode",
                         diff=["not_refused"], detail={"operand": repr(other)[:80]})
            return
        if call.bag["a_problems"] or call.bag.get("b_problems"):
            rec.skip(self.name, "operand_illformed")
            return
        if free:
            rec.skip(self.name, "free_arithmetics")
            return
        # (a Histogram1D and a one-axis HistogramND keep their missed weight differently - three counters against one: operands of
        # different kinds, like different dimensions)
        different_dim = a["ndim"] != b["ndim"] or ("underflow" in a) != ("underflow" in b)
        incompatible = different_dim or (bins_clearly_different(a, b) and not call.bag["a_adaptive"])
        if call.exc is not None:
            rec.mon("C05.add.refusal")
            if not incompatible and same_bins_exact(a, b):
                # equal bins: the statement promises a result. A refusal is only legitimate for a negative difference.
                if not (self.sign < 0 and isinstance(call.exc, ValueError) and "negative" in str(call.exc).lower()):
                    rec.fail(prop="C05", monitor="C05.add.refusal", op=op, symptom=f"histograms with equal bins were refused: {type(call.exc).__name__}",
                             diff=["raised"], detail={"error": str(call.exc)[:200], "a": a["dtype"], "b": b["dtype"], "shape": a["frequencies"][1]})
            return
        if incompatible:
            rec.mon("C05.add.refusal")
            rec.fail(prop="C05", monitor="C05.add.refusal", op=op, symptom="incompatible operands (bins / dimension) were not refused", diff=["not_refused"],
                     detail={"a_shape": a["frequencies"][1], "b_shape": b["frequencies"][1], "a_adaptive": call.bag["a_adaptive"]})
            return
        if not same_bins_exact(a, b) and not bins_clearly_different(a, b):
            rec.skip(self.name, "nearly_equal_bins")  # the library's tolerance decided; not judged
            return
        res = call.self if self.inplace else call.result
        if not is_hist(res):
            return
        r = snap.snapshot(res)
        check_add(rec, op=op, a=a, b=b, r=r, sign=self.sign, inplace=self.inplace, a_adaptive=call.bag["a_adaptive"],
                  detail={"a": f"{a['class']}{a['frequencies'][1]}:{a['dtype']}", "b": f"{b['class']}{b['frequencies'][1]}:{b['dtype']}"})


# ---------------------------------------------------------------------------------------------
# scaling / division


def _scalar_value(x) -> Optional[float]:
    if isinstance(x, bool):
        return None
    if isinstance(x, (int, float, np.integer, np.floating)):
        return float(x)
    return None


def check_scale(rec: core.Recorder, *, op: str, pre: dict, post: dict, factor, divide: bool, detail: Optional[dict] = None):
    """post must be pre scaled by factor (divide: by 1/factor): contents and missed x c, errors2 x c*c."""
    rec.mon("C06.scale.post")
    detail = dict(detail or {})
    c = float(factor)

    def fail(symptom, diff, **extra):
        rec.fail(prop="C06", monitor="C06.scale.post", op=op, symptom=symptom, diff=diff, detail={**detail, "factor": repr(factor), **extra})

    if post["bins"] != pre["bins"]:
        fail("scaling changed the bins", ["bins"])
        return
    rd = np.dtype(post["dtype"])
    f0, e0 = _vals(pre, "frequencies"), _vals(pre, "errors2")
    f1, e1 = _vals(post, "frequencies"), _vals(post, "errors2")
    if f0.shape != f1.shape:
        fail("scaling changed the shape", ["frequencies"])
        return
    with np.errstate(all="ignore"):
        if divide:
            ef, ee = f0 / c, e0 / c / c  # (c * c may not be a float although the quotient is)
        else:
            ef, ee = f0 * c, e0 * (c * c)
    if rd.kind in "iu":
        okf, oke = np.array_equal(f1, ef), np.array_equal(e1, ee)
    else:
        # the factor's own element type does not enter: c is a number, c*c its square (a float16 / narrow integer scalar squared
        # in its own type would scale the errors by a rounded or wrapped c*c)
        eps = max(_eps(rd), _eps(pre["dtype"]), 1.2e-16)
        top = float(np.finfo(rd).max)
        with np.errstate(all="ignore"):
            # beyond the largest number of a narrow float type the result reads inf: that is the type's range, not the scaling
            ovf_f, ovf_e = np.abs(ef) > top * (1 - 4 * eps), np.abs(ee) > top * (1 - 8 * eps)
            # (an unknown - NaN - content stays unknown under every scaling)
            okf = bool(np.all(np.where(np.isnan(ef), np.isnan(f1), np.where(ovf_f, np.isinf(f1) | (np.abs(f1 - ef) <= 4 * eps * np.abs(ef)), np.abs(f1 - ef) <= 4 * eps * np.abs(ef) + 1e-300))))
            oke = bool(np.all(np.where(np.isnan(ee), np.isnan(e1), np.where(ovf_e, np.isinf(e1) | (np.abs(e1 - ee) <= 8 * eps * np.abs(ee)), np.abs(e1 - ee) <= 8 * eps * np.abs(ee) + 1e-300))))
    if not okf:
        i = int(np.argmax(np.abs(f1 - ef).ravel()))
        fail("contents are not the operand's contents " + ("divided" if divide else "multiplied") + " by the scalar", ["frequencies"],
             before=float(f0.ravel()[i]), after=float(f1.ravel()[i]), expected=float(ef.ravel()[i]))
    if not oke:
        i = int(np.argmax(np.abs(e1 - ee).ravel()))
        fail("errors2 are not the operand's errors2 scaled by the square of the scalar", ["errors2"],
             before=float(e0.ravel()[i]), after=float(e1.ravel()[i]), expected=float(ee.ravel()[i]))
    if pre["keep_missed"]:
        for k in _missed_keys(pre):
            v0, v1 = pre[k], post.get(k)
            if v0 == "nan":
                continue
            ev = v0 / c if divide else v0 * c
            eps = max(_eps(rd), 1.2e-16)
            if v1 == "nan" or abs(v1 - ev) > 4 * eps * abs(ev) + 1e-300:
                fail(f"{k} is not scaled with the contents", [k], before=v0, after=v1, expected=ev)
    for k in ("name", "title", "axis_names", "meta_data", "keep_missed", "adaptive", "class"):
        if pre.get(k) != post.get(k):
            fail(f"scaling changed {k}", [k])
    # C13: float factors / division give a float kind
    rec.mon("C13.scale.dtype")
    float_factor = isinstance(factor, (float, np.floating))
    if (divide or float_factor) and rd.kind != "f":
        rec.fail(prop="C13", monitor="C13.scale.dtype", op=op, symptom="float factor / division did not promote the contents to a float type",
                 diff=["dtype"], detail={**detail, "factor": repr(factor), "before": pre["dtype"], "after": post["dtype"]})
    # (products that 64 bits cannot hold - the squared errors grow with the square of the factor - have no integer type to stay in:
    # there the float result is the one that loses nothing)
    beyond_int64 = False
    if not divide and not float_factor and np.dtype(pre["dtype"]).kind in "iu":
        try:
            k = abs(int(factor))
            biggest = max(int(np.abs(snap.arr_values(pre["frequencies"])).max(initial=0)) * k, int(snap.arr_values(pre["errors2"]).max(initial=0)) * k * k)
            beyond_int64 = biggest > np.iinfo(np.int64).max
        except (TypeError, ValueError, OverflowError):
            beyond_int64 = False
    if beyond_int64:
        rec.skip("C13.scale.dtype", "products_beyond_int64")
        if rd.kind in "iu":
            rec.fail(prop="C13", monitor="C13.scale.dtype", op=op, symptom="integer histogram times integer factor stayed in an integer type that cannot hold the products",
                     diff=["dtype"], detail={**detail, "factor": repr(factor), "before": pre["dtype"], "after": post["dtype"]})
    elif not divide and not float_factor and np.dtype(pre["dtype"]).kind in "iu" and rd.kind not in "iu":
        rec.fail(prop="C13", monitor="C13.scale.dtype", op=op, symptom="integer histogram times integer factor left the integer types",
                 diff=["dtype"], detail={**detail, "factor": repr(factor), "before": pre["dtype"], "after": post["dtype"]})
    # C06 / C14: statistics under positive rescaling
    s0, s1 = stats_tuple(pre), stats_tuple(post)
    narrow_stats = max(float(pre.get("statistics_eps", 0)), float(post.get("statistics_eps", 0))) > 1e-4
    if narrow_stats:
        rec.skip("C06.scale.stats", "float16_sums")  # a float16 factor turns the recorded sums into float16 scalars (may overflow at 65504): not judged
    if s0 is not None and s1 is not None and c > 0 and not narrow_stats:
        rec.mon("C06.scale.stats")
        if stats_all_nan(s0):
            if not stats_all_nan(s1):
                rec.fail(prop="C14", monitor="C06.scale.stats", op=op, symptom="invalid statistics became numbers by scaling", diff=["statistics"],
                         detail={**detail, "before": s0, "after": s1})
        else:
            k = 1 / c if divide else c
            s0 = tuple(_n(x) for x in s0)
            s1 = tuple(_n(x) for x in s1)
            w0, w1 = s0[4], s1[4]
            bad = None
            if any(math.isnan(x) or math.isinf(x) for x in (s0[0], s0[1], s0[4])):
                rec.skip("C06.scale.stats", "partially_invalid_sums")
                return
            # a float16 / float32 factor carries its own rounding into the recorded sums (soundness rule 3.7)
            rel = 1e-9
            if isinstance(factor, np.floating):
                rel = max(rel, 8 * float(np.finfo(type(factor)).eps))
            rel = max(rel, 8 * float(pre.get("statistics_eps", 0)), 8 * float(post.get("statistics_eps", 0)))
            want_w = w0 / c if divide else w0 * c  # (1 / c need not be a float)
            if not _close(w1, want_w, abs(want_w), rel):
                bad = ("weight", want_w, w1)
            elif not (_close(s1[2], s0[2], 0) and _close(s1[3], s0[3], 0)):
                bad = ("min/max", (s0[2], s0[3]), (s1[2], s1[3]))
            elif w0 != 0 and w1 != 0 and not math.isnan(w1):
                m0, m1 = s0[0] / w0, s1[0] / w1
                try:
                    v0 = s0[1] / w0 - m0 * m0
                    v1 = s1[1] / w1 - m1 * m1
                except OverflowError:
                    rec.skip("C06.scale.stats", "sums_beyond_float_range")
                    return
                scale2 = abs(s0[1] / w0) + m0 * m0
                if not _close(m1, m0, abs(m0) + math.sqrt(abs(scale2)), rel):
                    bad = ("mean", m0, m1)
                elif not _close(v1, v0, scale2, max(1e-7, 100 * rel)):
                    bad = ("variance", v0, v1)
            if bad:
                for prop_ in ("C06", "C14"):
                    rec.fail(prop=prop_, monitor="C06.scale.stats", op=op, symptom=f"statistics {bad[0]} not invariant / weight not scaled under positive rescaling",
                             diff=["statistics"], detail={**detail, "factor": repr(factor), "expected": bad[1], "got": bad[2], "before": s0, "after": s1})


class ScaleMonitor(Handler):
    """__mul__, __rmul__, __imul__, __truediv__, __itruediv__ at depth 0."""

    name = "C06.scale"

    def __init__(self, method: str):
        self.method = method
        self.divide = "div" in method
        self.inplace = method in ("__imul__", "__itruediv__")

    def before(self, call: Call):
        call.bag["sskip"] = None
        if call.depth != 0:
            call.bag["sskip"] = "nested"
            return
        h = call.self
        if not is_hist(h):
            call.bag["sskip"] = "self"
            return
        try:
            from physt.config import config

            call.bag["sfree"] = bool(config.free_arithmetics)
        except Exception:
            call.bag["sfree"] = False
        call.bag["sproblems"] = snap.wellformed_problems(h)
        call.bag["spre"] = snap.snapshot(h)
        call.bag["sother"] = call.args[1] if len(call.args) > 1 else None

    def after(self, call: Call):
        rec = core.recorder()
        if call.bag.get("sskip"):
            return
        other = call.bag["sother"]
        free = call.bag["sfree"]
        op = call.qualname
        pre = call.bag["spre"]
        if call.bag["sproblems"]:
            rec.skip(self.name, "illformed_before")
            return
        c = _scalar_value(other)
        # mandated refusals
        if is_hist(other):
            rec.mon("C06.scale.refusal")
            if call.exc is None:
                rec.fail(prop="C06", monitor="C06.scale.refusal", op=op, symptom="histogram (*, /) histogram was not refused", diff=["not_refused"], detail={})
            return
        if c is None:
            if not free and other is not None and not np.isscalar(other):
                rec.mon("C06.scale.refusal")
                if call.exc is None:
                    rec.fail(prop="C06", monitor="C06.scale.refusal", op=op, symptom="array operand accepted outside free-arithmetics mode", diff=["not_refused"],
                             detail={"operand": repr(other)[:80]})
            return
        if not math.isfinite(c) or c == 0:
            rec.skip(self.name, "zero_or_nonfinite_factor")
            return
        total0 = float(np.abs(_vals(pre, "frequencies")).sum())
        if c < 0 and not free:
            rec.mon("C06.scale.refusal")
            if call.exc is None and total0 > 0:
                rec.fail(prop="C06", monitor="C06.scale.refusal", op=op, symptom="negative factor accepted outside free-arithmetics mode", diff=["not_refused"],
                         detail={"factor": repr(other)})
            return
        if call.exc is not None:
            rec.mon("C06.scale.refusal")
            with np.errstate(invalid="ignore"):
                holds_negative = bool(np.any(_vals(pre, "frequencies") < 0))
            if not free and holds_negative:
                return  # negative contents (made under free arithmetics) exist only there: scaling them outside is refused (C19)
            if c > 0:
                rec.fail(prop="C06", monitor="C06.scale.refusal", op=op, symptom=f"valid positive scalar refused: {type(call.exc).__name__}", diff=["raised"],
                         detail={"factor": repr(other), "error": str(call.exc)[:160], "dtype": pre["dtype"]})
            return
        res = call.self if self.inplace else call.result
        if not is_hist(res):
            return
        post = snap.snapshot(res)
        check_scale(rec, op=op, pre=pre, post=post, factor=other, divide=self.divide,
                    detail={"h": f"{pre['class']}{pre['frequencies'][1]}:{pre['dtype']}"})
        if not self.inplace:
            now = snap.snapshot(call.self)
            d = snap.diff(pre, now)
            if d:
                rec.fail(prop="C06", monitor="C06.scale.post", op=op, symptom="the operand was modified by a copying scaling", diff=sorted(d), detail={"factor": repr(other)})


def attach_algebra_monitors(which=("add", "scale")):
    from physt.histogram_base import HistogramBase
    from .. import attach

    if "add" in which:
        for m in ("__add__", "__radd__", "__iadd__", "__sub__", "__isub__"):
            attach.wrap(HistogramBase, m, AddMonitor(m))
    if "scale" in which:
        for m in ("__mul__", "__rmul__", "__imul__", "__truediv__", "__itruediv__"):
            attach.wrap(HistogramBase, m, ScaleMonitor(m))
