"""Binning schemas (C07): consistency audit of any binning object + rule oracles per factory."""
from __future__ import annotations

import math
from typing import Any, Dict, List, Optional, Sequence

import numpy as np

from .. import core
from ..attach import Call, Handler


def _ulp(x: float) -> float:
    return float(np.spacing(abs(x))) if x != 0 and math.isfinite(x) else 5e-324


def audit_binning(rec: core.Recorder, b, *, op: str, detail=None, deep: bool = True) -> bool:
    """Pair / edge / masked-edge representations, bin_count, first/last edge, is_consecutive, is_regular,
    copy(), ==, slicing and as_static must agree with one another."""
    rec.mon("C07.audit")
    ok = True
    detail = dict(detail or {})
    detail["binning"] = type(b).__name__

    def fail(symptom, diff, **extra):
        nonlocal ok
        ok = False
        rec.fail(prop="C07", monitor="C07.audit", op=op, symptom=symptom, diff=diff, detail={**detail, **extra})

    try:
        bins = np.asarray(b.bins, dtype=float)
    except Exception as e:
        fail(f"bins unreadable: {type(e).__name__}", ["bins"], error=str(e)[:100])
        return False
    if bins.ndim != 2 or bins.shape[1] != 2:
        fail("bins is not an (n, 2) array", ["bins"], shape=bins.shape)
        return False
    n = len(bins)
    if n == 0:
        return ok
    if not np.all(bins[:, 0] < bins[:, 1]):
        fail("a bin has left >= right", ["bins"], bins=bins[:6])
        return False
    if n > 1 and not np.all(bins[1:, 0] >= bins[:-1, 1]):
        fail("bins overlap / are not rising", ["bins"], bins=bins[:6])
        return False
    try:
        if b.bin_count != n:
            fail("bin_count differs from the number of bins", ["bin_count"], bin_count=b.bin_count, n=n)
        if float(b.first_edge) != bins[0, 0] or float(b.last_edge) != bins[-1, 1]:
            fail("first_edge / last_edge disagree with bins", ["first_edge", "last_edge"], first=float(b.first_edge), last=float(b.last_edge), bins=[bins[0], bins[-1]])
    except Exception as e:
        fail(f"bin_count / first_edge / last_edge raise {type(e).__name__}", ["bin_count"], error=str(e)[:100])
    exact_cons = bool(np.array_equal(bins[1:, 0], bins[:-1, 1]))
    clear_gap = False
    if not exact_cons:
        a, c = bins[:-1, 1], bins[1:, 0]
        d = np.abs(c - a)
        tol = 1e-8 + 1e-5 * np.abs(a)
        ne = a != c
        clear_gap = bool(np.all(d[ne] > 100 * tol[ne]))
    try:
        ic = bool(b.is_consecutive())
        if exact_cons and not ic:
            fail("is_consecutive() is False for exactly adjacent bins", ["is_consecutive"])
        if clear_gap and ic:
            fail("is_consecutive() is True although there is a clear gap", ["is_consecutive"], bins=bins[:6])
        # the answer belongs to the tolerance of the question: asking generously first (or exactly first) does not change later answers
        probe = b.copy()
        span = float(abs(bins[-1, 1] - bins[0, 0])) if n else 1.0
        first_generous = bool(probe.is_consecutive(atol=span + 1.0))
        then_exact = bool(probe.is_consecutive())
        if then_exact != ic:
            fail("is_consecutive() answers differently after it was asked with a tolerance (the earlier answer is remembered)", ["is_consecutive"],
                 fresh=ic, after_tolerant_call=then_exact, tolerant_answer=first_generous, bins=bins[:6])
        probe = b.copy()
        probe.is_consecutive()
        if n > 1 and not exact_cons and not bool(probe.is_consecutive(atol=span + 1.0)):
            fail("is_consecutive(atol=<more than the whole range>) is False after an exact call (the earlier answer is remembered)", ["is_consecutive"], bins=bins[:6])
    except Exception as e:
        fail(f"is_consecutive raises {type(e).__name__}", ["is_consecutive"], error=str(e)[:100])
    if exact_cons:
        try:
            nb = np.asarray(b.numpy_bins, dtype=float)
            want = np.concatenate([bins[:1, 0], bins[:, 1]])
            if nb.shape != want.shape or not np.array_equal(nb, want):
                fail("numpy_bins (edges) disagree with bins (pairs)", ["numpy_bins"], numpy_bins=nb[:8], bins=bins[:4])
        except Exception as e:
            fail(f"numpy_bins raises for consecutive bins: {type(e).__name__}", ["numpy_bins"], error=str(e)[:100])
    try:
        edges, mask = b.numpy_bins_with_mask
        edges = np.asarray(edges, dtype=float)
        mask = np.asarray(mask, dtype=int)
        right_open = not bool(b.includes_right_edge)
        core_edges = edges[:-1] if (right_open and len(edges) and np.isinf(edges[-1])) else edges
        if right_open and not (len(edges) and np.isinf(edges[-1])):
            fail("masked edges of a right-open binning lack the closing infinity edge", ["numpy_bins_with_mask"], edges=edges[-3:])
        if (not right_open) and len(edges) and np.isinf(edges[-1]):
            fail("masked edges of a right-closed binning carry an infinity edge", ["numpy_bins_with_mask"], edges=edges[-3:])
        if not np.all(np.diff(edges) > 0):
            fail("masked edges are not strictly rising", ["numpy_bins_with_mask"], edges=edges[:8])
        elif len(mask) != n or np.any(mask < 0) or np.any(mask + 1 >= len(edges) + (0 if not right_open else 0)):
            fail("mask does not select one edge interval per bin", ["numpy_bins_with_mask"], mask=mask[:8], n=n)
        else:
            if not (np.array_equal(edges[mask], bins[:, 0]) and np.array_equal(core_edges[np.minimum(mask + 1, len(core_edges) - 1)], bins[:, 1])):
                fail("masked edges / mask do not reproduce the bins", ["numpy_bins_with_mask"], edges=edges[:8], mask=mask[:8], bins=bins[:4])
    except Exception as e:
        fail(f"numpy_bins_with_mask raises {type(e).__name__}", ["numpy_bins_with_mask"], error=str(e)[:100])
    # is_regular
    name = type(b).__name__
    widths = bins[:, 1] - bins[:, 0]
    spread = float(widths.max() - widths.min()) if n > 1 else 0.0
    try:
        reg = bool(b.is_regular())
        if name == "ExponentialBinning":
            pass  # declared irregular by design (even for one bin)
        elif (spread <= 1e-9 * float(widths.max()) or spread <= 2 * float(np.spacing(np.max(np.abs(bins))))) and not reg:
            fail("is_regular() is False although all widths are equal", ["is_regular"], widths=widths[:6])
        elif spread > 1e-3 * float(widths.max()) and spread > 16 * float(np.spacing(np.max(np.abs(bins)))) and reg and name != "FixedWidthBinning":
            # judged relative to the widths: bins of nanoseconds are as regular or irregular as bins of hours
            fail("is_regular() is True although the widths clearly differ", ["is_regular"], widths=widths[:6])
        # the answer belongs to the bins, not to the class that describes them: the static copy and a full slice of the same bins agree
        if n >= 2 and name in ("FixedWidthBinning", "NumpyBinning"):
            try:
                st_reg = bool(b.as_static().is_regular())
                sl_reg = bool(b[:].is_regular()) if hasattr(b, "__getitem__") else st_reg
            except Exception:
                st_reg = sl_reg = reg
            if st_reg != reg or sl_reg != reg:
                fail("is_regular() of a binning disagrees with its static copy / full slice (the same bins)", ["is_regular"], own=reg, static_copy=st_reg, full_slice=sl_reg,
                     widths=widths[:4], first_edge=float(bins[0, 0]))
    except Exception as e:
        fail(f"is_regular raises {type(e).__name__}", ["is_regular"], error=str(e)[:100])
    if not deep:
        return ok
    # copy / == / as_static / slicing
    try:
        c = b.copy()
        if type(c) is not type(b):
            fail("copy() has another class", ["copy"], got=type(c).__name__)
        cb = np.asarray(c.bins, dtype=float)
        if cb.shape != bins.shape or not np.array_equal(cb, bins):
            fail("copy() has other bins", ["copy"], copy=cb[:4], original=bins[:4])
        if bool(c.is_adaptive()) != bool(b.is_adaptive()):
            fail("copy() lost / gained adaptivity", ["copy"])
        if bool(c.includes_right_edge) != bool(b.includes_right_edge):
            fail("copy() changed includes_right_edge", ["copy"])
        if not (c == b) or not (b == c):
            fail("a binning is not == to its copy", ["eq"])
        if c is b:
            fail("copy() returned the same object", ["copy"])
        if name == "FixedWidthBinning" and (c.bin_width != b.bin_width):
            fail("copy() changed the bin width", ["copy"])
        # copies must not leak stale cached edges into later views
        audit_binning(rec, c, op=op + "/copy", detail=detail, deep=False)
    except Exception as e:
        fail(f"copy() / == raise {type(e).__name__}", ["copy"], error=str(e)[:100])
    if name == "FixedWidthBinning" and n >= 1:
        # the same grid described by another decomposition (k bins taken out of the shift into the origin index, as
        # integer binning vs fixed width 1 shifted by -0.5): == goes by the edges, in both directions
        try:
            from physt.binnings import FixedWidthBinning

            w = float(b.bin_width)
            tm, sh = int(b._times_min), float(b._shift)  # noqa: SLF001 (the decomposition is what the constructor takes)
            for k in (1, -1, 2):
                alt = FixedWidthBinning(bin_width=w, bin_count=n, bin_times_min=tm - k, bin_shift=sh + k * w, includes_right_edge=bool(b.includes_right_edge),
                                        adaptive=bool(b.is_adaptive()))
                ab = np.asarray(alt.bins, dtype=float)
                same_edges = ab.shape == bins.shape and np.array_equal(ab, bins)
                if bool(alt == b) != same_edges or bool(b == alt) != same_edges:
                    fail("== of two fixed-width binnings disagrees with their edges", ["eq"], edges_equal=same_edges, eq=bool(alt == b), width=w,
                         decomposition=[tm, sh], other=[tm - k, sh + k * w])
                    break
        except Exception as e:
            fail(f"equivalent fixed-width description raises {type(e).__name__}", ["eq"], error=str(e)[:100])
    try:
        s = b.as_static()
        sb = np.asarray(s.bins, dtype=float)
        if type(s).__name__ != "StaticBinning" or not np.array_equal(sb, bins):
            fail("as_static() does not give a StaticBinning over the same bins", ["as_static"])
        else:
            # == must look at the edges: same number of bins elsewhere is another binning, same edges is the same binning
            span = float(bins[-1, 1] - bins[0, 0])
            try:
                moved = type(s)(bins + span, includes_right_edge=bool(s.includes_right_edge))
            except ValueError:
                moved = None  # bins a few ulps wide: the shifted copy is not representable (rounds to non-rising edges)
            same = type(s)(bins.copy(), includes_right_edge=bool(s.includes_right_edge))
            if moved is not None and ((s == moved) or (moved == s)):
                fail("binnings with the same number of bins but other edges compare ==", ["eq"])
            if not (s == same):
                fail("binnings with identical edges do not compare ==", ["eq"])
    except Exception as e:
        fail(f"as_static raises {type(e).__name__}", ["as_static"], error=str(e)[:100])
    if n >= 2:
        try:
            i, j = (0, n - 1) if n < 4 else (1, n - 1)
            sl = b[i:j]
            slb = np.asarray(sl.bins, dtype=float)
            if not np.array_equal(slb, bins[i:j]):
                fail("slicing a binning does not give the sliced bins", ["getitem"], got=slb[:4], expected=bins[i:j][:4])
            else:
                audit_binning(rec, sl, op=op + "/slice", detail=detail, deep=False)
                if len(slb) != n and (sl == b):
                    fail("a proper slice compares == to the whole binning", ["eq"])
        except Exception as e:
            fail(f"slicing raises {type(e).__name__}", ["getitem"], error=str(e)[:100])
    return ok


# ---------------------------------------------------------------------------------------------
# rule oracles


def textbook_bin_count(data: np.ndarray, method: str) -> int:
    n = data.size
    if n < 1:
        return 1
    if method == "sqrt":
        return int(math.ceil(math.sqrt(n)))
    if method == "sturges":
        return int(math.ceil(math.log2(n))) + 1
    if method == "rice":
        return int(math.ceil(2 * n ** (1 / 3)))
    if method == "doane":
        if n < 3:
            return 1
        x = [float(v) for v in data.ravel()]
        m = math.fsum(x) / n
        s2 = math.fsum((v - m) ** 2 for v in x) / n
        if s2 == 0:
            return -1
        g1 = math.fsum((v - m) ** 3 for v in x) / n / s2 ** 1.5
        sg = math.sqrt(6.0 * (n - 2) / ((n + 1.0) * (n + 3)))
        return int(math.ceil(1 + math.log2(n) + math.log2(1 + abs(g1) / sg)))
    if method == "default":
        return 7 if n <= 32 else int(math.ceil(math.log2(n))) + 1
    raise ValueError(method)


def textbook_quantiles(data: np.ndarray, qs: Sequence[float]) -> np.ndarray:
    x = np.sort(np.asarray(data, dtype=float).ravel())
    n = len(x)
    out = []
    for q in qs:
        pos = q * (n - 1)
        lo = int(math.floor(pos))
        hi = min(lo + 1, n - 1)
        frac = pos - lo
        out.append(x[lo] + (x[hi] - x[lo]) * frac)
    return np.array(out)


def pretty_family(width: float) -> bool:
    if not (width > 0 and math.isfinite(width)):
        return False
    k = math.floor(math.log10(width))
    for kk in (k - 1, k, k + 1):
        for m in (1, 2, 2.5, 5):
            cand = m * 10.0 ** kk
            if abs(width - cand) <= 1e-9 * cand:
                return True
    return False


def pretty_nearest(width: float, raw: float) -> bool:
    """width is the family member nearest to raw under the linear OR the logarithmic metric (soundness rule 6)."""
    k = math.floor(math.log10(raw))
    cands = sorted({m * 10.0 ** kk for kk in (k - 1, k, k + 1) for m in (1, 2, 2.5, 5)})
    best_lin = min(cands, key=lambda c: abs(c - raw))
    best_log = min(cands, key=lambda c: abs(math.log(c / raw)))
    near = lambda a, c: abs(a - c) <= 1e-9 * c
    if near(width, best_lin) or near(width, best_log):
        return True
    # ties (equal distance within rounding) are not judged
    for c in cands:
        if near(width, c) and (abs(abs(c - raw) - abs(best_lin - raw)) <= 1e-9 * raw or abs(abs(math.log(c / raw)) - abs(math.log(best_log / raw))) <= 1e-9):
            return True
    return False


def check_equal_width_grid(rec, bins: np.ndarray, width: Optional[float], shift: Optional[float], *, op: str, detail: dict, half_integer=False) -> bool:
    ok = True

    def fail(symptom, diff, **extra):
        nonlocal ok
        ok = False
        rec.fail(prop="C07", monitor="C07.rule", op=op, symptom=symptom, diff=diff, detail={**detail, **extra})

    if not np.array_equal(bins[1:, 0], bins[:-1, 1]):
        fail("fixed-width bins are not contiguous", ["bins"], bins=bins[:6])
        return False
    mag = float(np.max(np.abs(bins))) + abs(float(shift or 0.0))  # rounding of k*width + shift happens at the larger magnitude
    w = bins[:, 1] - bins[:, 0]
    ref = width if width is not None else float(w[0])
    tol = 4 * _ulp(mag) + 4 * _ulp(ref)
    if np.max(np.abs(w - ref)) > tol:
        fail("bins are not equal-width (beyond 4 ulp of the edge magnitude)", ["bins"], widths=w[:6], expected=ref)
    if shift is not None and width is not None:
        for e in (bins[0, 0], bins[-1, 1]):
            k = round((e - shift) / width)
            ideal = k * width + shift
            if abs(e - ideal) > 4 * max(_ulp(e), _ulp(ideal), _ulp(shift)) + 4 * _ulp(mag):
                fail("edges are not on the grid shift + k*width", ["bins"], edge=float(e), ideal=ideal, width=width, shift=shift)
                break
    if half_integer:
        for e in (bins[0, 0], bins[-1, 1]):
            if abs((e - 0.5) - round(e - 0.5)) > 1e-9:
                fail("integer binning edges are not at half-integers (bins not centred on integers)", ["bins"], edge=float(e))
                break
    return ok
