"""History / per-step monitor for adaptive fixed-width histograms (C04).

check_adaptive_step compares the public state before and after one fill / fill_n of an adaptive
histogram (1D or ND):

  * nothing is lost: total grows by exactly the finite weight entered, underflow / overflow /
    missed stay what they were (zero for a histogram that never lost anything);
  * every finite value of the batch lies inside a reported bin and find_bin returns that bin;
  * the bins stay contiguous, equal-width, on the old grid (every old edge is still an edge,
    bit for bit) and span exactly from the lowest to the highest bin needed (hull of the old
    bins and of the bins containing the batch extremes - no superfluous bins);
  * contents recorded earlier stay attached to the same interval (interval map: post == pre +
    exact count of the batch over the post bins).
"""
from __future__ import annotations

import math
from fractions import Fraction
from typing import Any, Dict, List, Optional, Sequence, Tuple

import numpy as np

from .. import core, model, snapshot as snap
from ..attach import Call, Handler

MON = "C04.adaptive.step"


def _ulp(x: float) -> float:
    return float(np.spacing(abs(x))) if x != 0 else 5e-324


def grid_problems(bins: np.ndarray, width: Optional[float], shift: float = 0.0) -> List[str]:
    probs = []
    if len(bins) == 0:
        return probs
    if not np.array_equal(bins[1:, 0], bins[:-1, 1]):
        probs.append("bins not contiguous")
    if not np.all(bins[:, 0] < bins[:, 1]):
        probs.append("bin with left >= right")
    if width is not None:
        # tolerance in ulps of the largest edge magnitude of the whole grid (edges are origin + k*width in floating point)
        # edges are k*width + shift in floating point: the rounding is that of the larger of |k*width| and |shift|, which may
        # exceed the edge itself when the two nearly cancel (e.g. shift 1.7, width 0.1, edge -0.1)
        mag = float(np.max(np.abs(bins))) + abs(float(shift or 0.0))
        for l, r in bins:
            tol = 4 * _ulp(mag) + 4 * _ulp(width)
            if abs((r - l) - width) > tol:
                probs.append(f"bin [{l!r}, {r!r}) has width {r - l!r}, expected {width!r}")
                break
    return probs


def check_adaptive_step(rec: core.Recorder, h, pre: Dict[str, Any], rows: np.ndarray, weights: Optional[np.ndarray], *,
                        op: str, widths: Optional[Sequence[Optional[float]]] = None, detail=None, find_bin=True,
                        shifts: Optional[Sequence[float]] = None) -> bool:
    """rows: (n, ndim) float array of the batch (NaN rows still in place), weights aligned or None."""
    rec.mon(MON)
    ok = True

    def fail(symptom, diff, **extra):
        nonlocal ok
        ok = False
        d = dict(detail or {})
        d.update(batch=[[float(x).hex() if not math.isnan(x) else "nan" for x in r] for r in rows[:40].tolist()],
                 weights=None if weights is None else [float(x) for x in weights[:40]], **extra)
        rec.fail(prop="C04", monitor=MON, op=op, symptom=symptom, diff=diff, detail=d)

    post = snap.snapshot(h, with_stats=False)
    one_d = snap.is_1d(h)
    nd = post["ndim"]
    if not isinstance(post["bins"], list) or not isinstance(pre["bins"], list):
        fail("bins unreadable after the step", ["bins"], bins=post["bins"])
        return ok
    bins0 = [snap.arr_values(t) for t in pre["bins"]]
    bins1 = [snap.arr_values(t) for t in post["bins"]]
    mask = ~np.isnan(rows).any(axis=1) if len(rows) else np.zeros(0, dtype=bool)
    fin = rows[mask]
    wfin = None if weights is None else np.asarray(weights)[mask]

    probs = snap.wellformed_problems(h)
    if probs:
        fail("histogram ill-formed after adaptive step", ["wellformed"], problems=probs)
        return ok
    # grid
    for ax in range(nd):
        b0, b1 = bins0[ax], bins1[ax]
        w = None if widths is None else widths[ax]
        gp = grid_problems(b1, w, 0.0 if shifts is None else shifts[ax])
        if gp:
            fail("bins left the fixed-width grid", ["bins"], axis=ax, problems=gp, bins=b1[:8])
        if len(b0):
            old_edges = set(b0.ravel().tolist())
            new_edges = set(b1.ravel().tolist())
            if not old_edges <= new_edges:
                fail("old edges are no longer edges (grid origin moved)", ["bins"], axis=ax, lost=sorted(old_edges - new_edges)[:5])
        # span: hull of old bins and the bins needed for the batch extremes
        if len(b1) == 0:
            if len(fin):
                fail("no bins after entering finite values", ["bins"], axis=ax)
            continue
        need_lo = b0[0, 0] if len(b0) else math.inf
        need_hi = b0[-1, 1] if len(b0) else -math.inf
        if len(fin):
            mn, mx = float(fin[:, ax].min()), float(fin[:, ax].max())
            first, last = b1[0], b1[-1]
            if not (first[0] <= mn):
                fail("lowest value of the batch lies below the first bin", ["bins", "coverage"], axis=ax, value=mn.hex(), first_bin=first)
            if not (mx < last[1]):
                fail("highest value of the batch is not inside the last bin", ["bins", "coverage"], axis=ax, value=mx.hex(), last_bin=last)
            # no superfluous bins: the first bin holds the lowest value needed or is the old first bin
            if not (first[0] == need_lo or (first[0] <= mn < first[1])):
                fail("superfluous empty bin(s) on the left: bins do not span exactly the range needed", ["bins", "span"], axis=ax, value=mn.hex(), first_bin=first, old_first=need_lo)
            if not (last[1] == need_hi or (last[0] <= mx < last[1])):
                fail("superfluous empty bin(s) on the right: bins do not span exactly the range needed", ["bins", "span"], axis=ax, value=mx.hex(), last_bin=last, old_last=need_hi)
        else:
            if len(b0) and not np.array_equal(b0, b1):
                fail("bins changed although no finite value was entered", ["bins"], axis=ax)
    if not ok:
        return ok
    # contents stay attached to their intervals; batch counted exactly once
    rc = [False] * nd  # adaptive binnings are right-open
    shape, f, e, missed, total, nanw, st = model.bin_nd(bins1, rc, fin, wfin)
    if missed != 0:
        fail("a finite value of the batch lies in no reported bin", ["coverage"], lost_weight=float(missed))
    premap = snap.interval_map(pre) or {}
    postmap = snap.interval_map(post)
    exp: Dict[Tuple, List[float]] = {k: [v[0], v[1]] for k, v in premap.items()}
    for idx, val in f.items():
        key = tuple((float(bins1[ax][i, 0]), float(bins1[ax][i, 1])) for ax, i in enumerate(idx))
        cur = exp.setdefault(key, [0.0, 0.0])
        cur[0] += float(val)
        cur[1] += float(e[idx])
    exp = {k: v for k, v in exp.items() if v[0] != 0 or v[1] != 0}
    exact = model.exact_weights_ok(wfin) and np.dtype(post["dtype"]).itemsize >= 8
    if postmap is None:
        fail("histogram ill-formed after adaptive step", ["frequencies"])
    elif exact:
        if {k: v[0] for k, v in exp.items()} != {k: v[0] for k, v in postmap.items()}:
            lost = {str(k): v for k, v in exp.items() if postmap.get(k, (None,))[0] != v[0]}
            fail("contents are no longer attached to their intervals / batch not counted exactly once", ["frequencies"],
                 expected_but_different=dict(list(lost.items())[:6]), got={str(k): v for k, v in list(postmap.items())[:6]})
        elif {k: v[1] for k, v in exp.items()} != {k: v[1] for k, v in postmap.items()}:
            fail("errors2 are no longer attached to their intervals", ["errors2"])
    # nothing lost: totals and missed
    if exact:
        t0 = float(np.sum(snap.arr_values(pre["frequencies"]).astype(float)))
        t1 = float(np.sum(snap.arr_values(post["frequencies"]).astype(float)))
        if Fraction(t1) - Fraction(t0) != total:
            fail("total did not grow by exactly the weight entered", ["total"], before=t0, after=t1, entered=float(total))
    for name in (("underflow", "overflow", "inner_missed") if one_d else ("missed",)):
        if pre["keep_missed"] and pre[name] != post[name]:
            fail(f"{name} changed in an adaptive step (a value was lost)", [name], before=pre[name], after=post[name])
    # find_bin agrees with the bins
    if find_bin and len(fin):
        for r in fin[:25]:
            try:
                ix = h.find_bin(float(r[0])) if one_d else h.find_bin(r)
            except Exception as ex:
                fail("find_bin raised for an entered value", ["find_bin"], error=str(ex)[:100])
                break
            if one_d:
                good = isinstance(ix, (int, np.integer)) and 0 <= ix < len(bins1[0]) and bins1[0][ix, 0] <= r[0] < bins1[0][ix, 1]
            else:
                good = ix is not None and all(0 <= ix[a] < len(bins1[a]) and bins1[a][ix[a], 0] <= r[a] < bins1[a][ix[a], 1] for a in range(nd))
            if not good:
                fail("find_bin does not return the bin containing an entered value", ["find_bin"], value=[float(x).hex() for x in r], find_bin=ix)
                break
    return ok


class AdaptiveStepMonitor(Handler):
    """Passive: every depth-0 fill / fill_n on an adaptive plain histogram."""

    name = "C04.adaptive"

    def __init__(self, is_fill: bool):
        self.is_fill = is_fill

    def before(self, call: Call):
        from .fill import is_transformed

        h = call.self
        call.bag["skip4"] = None
        if call.depth != 0:
            call.bag["skip4"] = "nested"
            return
        try:
            adaptive = h.is_adaptive() and all(type(b).__name__ == "FixedWidthBinning" for b in h.binnings)
        except Exception:
            adaptive = False
        if not adaptive:
            call.bag["skip4"] = "not_adaptive"
            return
        if is_transformed(h):
            call.bag["skip4"] = "transformed"
            return
        args = call.args[1:]
        one_d = snap.is_1d(h)
        nd = h.ndim
        if self.is_fill:
            value = args[0] if args else call.kwargs.get("value")
            weight = args[1] if len(args) > 1 else call.kwargs.get("weight", 1)
            try:
                rows = np.asarray(value, dtype=float).reshape(1, nd)
                w = np.asarray([weight])
            except Exception:
                call.bag["skip4"] = "value"
                return
            if np.isnan(rows).any():
                call.bag["skip4"] = "nan_fill"
                return
            weights = w if (len(args) > 1 or "weight" in call.kwargs) else None
        else:
            values = args[0] if args else call.kwargs.get("values")
            weights = args[1] if len(args) > 1 else call.kwargs.get("weights")
            if not call.kwargs.get("dropna", True) or call.kwargs.get("columns"):
                call.bag["skip4"] = "options"
                return
            if one_d:
                flat = model.to_flat_float(values)
                rows = None if flat is None else flat.reshape(-1, 1)
            else:
                try:
                    rows = np.asarray(values, dtype=float)
                except Exception:
                    rows = None
                if rows is not None and (rows.ndim != 2 or rows.shape[1] != nd):
                    rows = None
            if rows is None:
                call.bag["skip4"] = "container"
                return
            if weights is not None:
                try:
                    weights = np.asarray(weights).ravel()
                except Exception:
                    call.bag["skip4"] = "weights"
                    return
                if weights.size != rows.shape[0] or weights.dtype.kind not in "iuf":
                    call.bag["skip4"] = "weights"
                    return
        fin = rows[~np.isnan(rows)]
        if fin.size and (np.any(np.isinf(fin)) or np.max(np.abs(fin)) > 1e12):
            call.bag["skip4"] = "values"
            return
        if weights is not None and (not np.all(np.isfinite(weights.astype(float))) or np.any(weights < 0)):
            call.bag["skip4"] = "weights_values"
            return
        if snap.wellformed_problems(h):
            call.bag["skip4"] = "illformed_before"
            return
        widths, shifts = [], []
        for b in h.binnings:
            widths.append(float(getattr(b, "bin_width", None)) if getattr(b, "bin_width", None) is not None else None)
            try:
                shifts.append(float(b.to_dict().get("bin_shift") or 0.0))
            except Exception:
                shifts.append(0.0)
        call.bag.update(shifts4=shifts, pre4=snap.snapshot(h, with_stats=False), rows4=rows.copy(), w4=None if weights is None else weights.copy(), widths4=widths)

    def after(self, call: Call):
        rec = core.recorder()
        if call.bag.get("skip4"):
            if call.bag["skip4"] != "not_adaptive":
                rec.skip(self.name, call.bag["skip4"])
            return
        if call.exc is not None:
            rec.skip(self.name, "raised")
            return
        b = call.bag
        check_adaptive_step(rec, call.self, b["pre4"], b["rows4"], b["w4"], op=call.qualname + "(passive)", widths=b["widths4"], shifts=b.get("shifts4"))


def attach_adaptive_monitors():
    from physt.histogram1d import Histogram1D
    from physt.histogram_nd import HistogramND
    from .. import attach

    f, n = AdaptiveStepMonitor(True), AdaptiveStepMonitor(False)
    for cls in (Histogram1D, HistogramND):
        attach.wrap(cls, "fill", f)
        attach.wrap(cls, "fill_n", n)
