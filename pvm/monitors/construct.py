"""Post-condition monitors for 1D / ND construction (C01, C02).

The oracle re-derives, for each observed call of h1 / h / h2 / h3, the expected contents from the
caller's raw data and the bins *the returned histogram itself reports*.
"""
from __future__ import annotations

import math
from fractions import Fraction
from typing import Any, Optional

import numpy as np

from .. import core, model
from ..attach import Call, Handler


def _bins_arg_as_pairs(bins_arg) -> Optional[np.ndarray]:
    """If the caller passed explicit edges / pairs / a binning object: the pairs they denote."""
    try:
        from physt.binnings import BinningBase
    except Exception:  # pragma: no cover
        BinningBase = ()  # type: ignore
    if bins_arg is None or isinstance(bins_arg, (int, str)) or callable(bins_arg):
        return None
    if isinstance(bins_arg, BinningBase):
        return None  # checked separately (identity of the reported bins with the object's bins)
    try:
        a = np.asarray(bins_arg, dtype=float)
    except Exception:
        return None
    if a.ndim == 1 and a.size >= 2:
        return np.stack([a[:-1], a[1:]], axis=1)
    if a.ndim == 2 and a.shape[1] == 2 and a.shape[0] >= 1:
        return a
    return None


def exactly_consecutive(bins: np.ndarray) -> Optional[bool]:
    """True: every right edge == next left edge; False: a clearly visible gap; None: ambiguous
    (a difference that the library's allclose tolerance may or may not call a gap)."""
    if len(bins) < 2:
        return True
    a, b = bins[:-1, 1], bins[1:, 0]
    # exact, as every assignment of a value to a bin is (the library's own predicate used to apply numpy's allclose
    # tolerance, repaired as D64: the "ambiguous" answer None is not needed any more)
    return bool(np.array_equal(a, b))


def check_h1(rec: core.Recorder, h, data_flat: np.ndarray, weights_flat: Optional[np.ndarray], *,
             bins_arg=None, dtype=None, keep_missed: bool = True, op: str = "h1",
             mechanism_hint: Optional[str] = None, detail: Optional[dict] = None) -> bool:
    """C01 oracle. data_flat / weights_flat: the caller's data, flattened, NaNs still in place."""
    ok = True
    rec.mon("C01.h1.post")
    bins = np.asarray(h.bins, dtype=float)
    freq = np.asarray(h.frequencies)
    err2 = np.asarray(h.errors2)

    def fail(symptom, diff, **extra):
        nonlocal ok
        ok = False
        d = dict(detail or {})
        d.update(extra)
        rec.fail(prop="C01", monitor="C01.h1.post", op=op, symptom=symptom, diff=diff,
                 mechanism=mechanism_hint, detail=d)

    if bins.ndim != 2 or bins.shape[1] != 2 or bins.shape[0] == 0:
        fail("bins malformed", ["bins"], bins=bins)
        return False
    if not (np.all(bins[:, 0] < bins[:, 1]) and np.all(bins[1:, 0] >= bins[:-1, 1])):
        fail("reported bins are not rising", ["bins"], bins=bins)
        return False
    req = _bins_arg_as_pairs(bins_arg)
    if req is not None and not (req.shape == bins.shape and np.array_equal(req, bins)):
        fail("explicitly requested bins not reported unchanged", ["bins"], requested=req, reported=bins)
    if freq.shape != (len(bins),) or err2.shape != (len(bins),):
        fail("contents shape differs from bins", ["frequencies", "errors2"], shape=freq.shape)
        return False

    exact = model.exact_weights_ok(weights_flat)
    m = model.bin_1d(bins, data_flat, weights_flat, last_closed=True)
    exp_f = model.frac_array(m.freq)
    exp_e = model.frac_array(m.err2)
    res_dtype = np.dtype(h.dtype)
    if res_dtype.kind in "iu" and dtype is None:
        top = float(np.iinfo(res_dtype).max)
        if float(np.max(exp_f, initial=0)) > top or float(np.max(exp_e, initial=0)) > top:
            fail("the integer type chosen for the result cannot hold the sums of the weights / of their squares (they wrap around)", ["dtype", "frequencies"],
                 dtype=str(res_dtype), max_content=float(np.max(exp_f, initial=0)), max_errors2=float(np.max(exp_e, initial=0)))
            return False
    if exact:
        # the library sums exactly and rounds once on assignment -> same single cast in the model
        with np.errstate(over="ignore", invalid="ignore"):
            f_ok = np.array_equal(freq.astype(float), exp_f.astype(res_dtype).astype(float))
            e_ok = np.array_equal(err2.astype(float), exp_e.astype(res_dtype).astype(float))
    else:
        # general float weights: each bin is one floating-point sum over the bin's own weights, so the bound is per bin
        # (n_k additions of magnitude <= sum |w| of that bin) plus one rounding into the result dtype - light bins next to
        # heavy ones are held to their own scale, not to the total's
        aw_all = np.abs(np.asarray(weights_flat, dtype=float)) if weights_flat is not None else np.ones(len(data_flat))
        m_abs = model.bin_1d(bins, data_flat, aw_all, last_closed=True)
        m_cnt = model.bin_1d(bins, data_flat, None, last_closed=True)
        eps_res = float(np.finfo(res_dtype).eps) if res_dtype.kind == "f" else 0.0
        tiny_res = float(np.finfo(res_dtype).tiny) if res_dtype.kind == "f" else 0.0  # below it a narrow float type rounds to subnormals / zero
        cnt = model.frac_array(m_cnt.freq) + 2
        abs_f = model.frac_array(m_abs.freq)
        abs_e = model.frac_array(m_abs.err2)
        tol_fk = 4 * cnt * 2.3e-16 * abs_f + 2 * eps_res * np.abs(exp_f) + tiny_res + 1e-300
        tol_ek = 4 * cnt * 2.3e-16 * abs_e + 2 * eps_res * np.abs(exp_e) + tiny_res + 1e-300
        n_under, n_over = float(m_cnt.underflow) + 2, float(m_cnt.overflow) + 2
        tol_u = 4 * n_under * 2.3e-16 * float(m_abs.underflow) + 2 * eps_res * abs(float(m.underflow)) + tiny_res + 1e-300
        tol_o = 4 * n_over * 2.3e-16 * float(m_abs.overflow) + 2 * eps_res * abs(float(m.overflow)) + tiny_res + 1e-300
        f_ok = bool(np.all(np.abs(freq.astype(float) - exp_f) <= tol_fk))
        e_ok = bool(np.all(np.abs(err2.astype(float) - exp_e) <= tol_ek))
    if not f_ok:
        fail("bin contents differ from the weight of the values inside each bin", ["frequencies"],
             got=freq, expected=exp_f, bins=bins)
    if not e_ok:
        fail("errors2 differ from the sum of squared weights", ["errors2"], got=err2, expected=exp_e)

    cons = exactly_consecutive(bins)
    if keep_missed and cons is not None:
        uf, of = h.underflow, h.overflow
        if cons:
            eu, eo = float(m.underflow), float(m.overflow)
            if exact:
                u_ok = float(uf) == float(np.asarray(eu).astype(res_dtype))
                o_ok = float(of) == float(np.asarray(eo).astype(res_dtype))
            else:
                u_ok = abs(float(uf) - eu) <= tol_u
                o_ok = abs(float(of) - eo) <= tol_o
            if not u_ok:
                fail("underflow differs from the weight below the first edge", ["underflow"], got=uf, expected=eu)
            if not o_ok:
                fail("overflow differs from the weight above the last edge", ["overflow"], got=of, expected=eo)
            if exact and u_ok and o_ok and f_ok and res_dtype.kind in "iuf" and res_dtype.itemsize >= 8:
                tot = Fraction(float(h.total)) + Fraction(float(uf)) + Fraction(float(of))
                if tot != m.total_weight:
                    fail("total + underflow + overflow != total input weight", ["total"], got=float(tot), expected=float(m.total_weight))
        elif "gap" in m.dest:
            # a value fell into a gap: what lies below / above the bins is no longer the whole of what was missed
            if not (math.isnan(float(uf)) and math.isnan(float(of))):
                fail("under/overflow of gapped bins should read as unknown (NaN) once a value fell into a gap", ["underflow", "overflow"], got=[uf, of])
        else:
            # gapped bins, but no value in a gap: the weight below the first and above the last bin is known (as single fills report it)
            eu, eo = float(m.underflow), float(m.overflow)
            if exact:
                uo_ok = float(uf) == float(np.asarray(eu).astype(res_dtype)) and float(of) == float(np.asarray(eo).astype(res_dtype))
            else:
                uo_ok = abs(float(uf) - eu) <= tol_u and abs(float(of) - eo) <= tol_o
            if not uo_ok:
                fail("under/overflow of gapped bins without a value in a gap differ from the weight below the first / above the last bin", ["underflow", "overflow"],
                     got=[uf, of], expected=[eu, eo])
    if dtype is not None:
        try:
            if np.dtype(dtype) != res_dtype:
                fail("requested dtype not honoured", ["dtype"], requested=str(np.dtype(dtype)), got=str(res_dtype))
        except TypeError:
            pass
    elif weights_flat is None or np.asarray(weights_flat).dtype.kind in "iub":
        if res_dtype.kind not in "iu":
            fail("unweighted counting did not stay in an integer dtype", ["dtype"], got=str(res_dtype))
    return ok


class H1Monitor(Handler):
    """Passive form: evaluates the C01 oracle on every call of the h1 facade it can understand."""

    name = "C01.h1"

    def before(self, call: Call):
        args, kw = call.args, dict(call.kwargs)
        data = args[0] if args else kw.get("data")
        bins_arg = args[1] if len(args) > 1 else kw.get("bins")
        call.bag["skip"] = None
        flat = model.to_flat_float(data)
        if flat is None:
            call.bag["skip"] = "container"
            return
        if flat.size and not np.all(np.isfinite(flat[~np.isnan(flat)])):
            call.bag["skip"] = "nonfinite"
            return
        if flat.size and np.nanmax(np.abs(flat), initial=0) > 1e150:
            call.bag["skip"] = "huge"
            return
        if not kw.get("dropna", True) and np.isnan(flat).any():
            call.bag["skip"] = "nan_kept"
            return
        w = kw.get("weights")
        wflat = None
        if w is not None:
            wflat = model.to_flat_float(w)
            if wflat is None or wflat.shape != flat.shape:
                call.bag["skip"] = "weights_shape"
                return
            try:
                wflat = np.asarray(w).ravel() if not hasattr(w, "to_numpy") else np.asarray(w.to_numpy()).ravel()
            except Exception:
                call.bag["skip"] = "weights"
                return
            if wflat.dtype.kind not in "iuf" or not np.all(np.isfinite(wflat.astype(float))) or np.any(wflat < 0):
                call.bag["skip"] = "weights_values"
                return
        call.bag.update(flat=flat.copy(), w=None if wflat is None else wflat.copy(), bins_arg=bins_arg,
                        dtype=kw.get("dtype"), keep_missed=kw.get("keep_missed", True))

    def after(self, call: Call):
        rec = core.recorder()
        if call.exc is not None:
            return
        if call.bag.get("skip"):
            rec.skip(self.name, call.bag["skip"])
            return
        h = call.result
        if not hasattr(h, "underflow"):
            return
        check_h1(rec, h, call.bag["flat"], call.bag["w"], bins_arg=call.bag["bins_arg"],
                 dtype=call.bag["dtype"], keep_missed=call.bag["keep_missed"], op="h1(passive)")


# ---------------------------------------------------------------------------------------------
# ND


def check_nd(rec: core.Recorder, h, rows: np.ndarray, weights: Optional[np.ndarray], *, op: str = "h",
             requested_bins=None, mechanism_hint: Optional[str] = None, detail: Optional[dict] = None,
             monitor: str = "C02.h.post") -> bool:
    """C02 oracle. rows: (n, d) float array, NaN rows still in place; weights aligned with rows."""
    ok = True
    rec.mon(monitor)
    bins = [np.asarray(b, dtype=float) for b in h.bins]
    d = len(bins)
    freq = np.asarray(h.frequencies)
    err2 = np.asarray(h.errors2)

    def fail(symptom, diff, **extra):
        nonlocal ok
        ok = False
        dd = dict(detail or {})
        dd.update(extra)
        rec.fail(prop="C02", monitor=monitor, op=op, symptom=symptom, diff=diff, mechanism=mechanism_hint, detail=dd)

    if rows.ndim != 2 or rows.shape[1] != d:
        fail("dimension of the histogram differs from the number of columns", ["ndim"], d=d, rows=rows.shape)
        return False
    for ax, b in enumerate(bins):
        if b.ndim != 2 or b.shape[1] != 2 or b.shape[0] == 0 or not (np.all(b[:, 0] < b[:, 1]) and np.all(b[1:, 0] >= b[:-1, 1])):
            fail("reported bins malformed / not rising", ["bins"], axis=ax, bins=b)
            return False
    if requested_bins is not None:
        for ax, req in enumerate(requested_bins):
            if req is not None and not (req.shape == bins[ax].shape and np.array_equal(req, bins[ax])):
                fail("explicitly requested bins not reported unchanged on their axis", ["bins"], axis=ax, requested=req, reported=bins[ax])
    shape = tuple(len(b) for b in bins)
    if freq.shape != shape or err2.shape != shape:
        fail("contents shape differs from per-axis bin counts", ["frequencies", "errors2"], got=freq.shape, expected=shape)
        return False
    right_closed = [bool(b.includes_right_edge) for b in h.binnings]
    shape, f, e, missed, total, nanw, st = model.bin_nd(bins, right_closed, rows, weights)
    exp_f, exp_e = model.dense(shape, f), model.dense(shape, e)
    res_dtype = np.dtype(h.dtype)
    exact = model.exact_weights_ok(weights)
    if res_dtype.kind in "iu":
        top = float(np.iinfo(res_dtype).max)
        if max(float(np.max(exp_f, initial=0)), float(np.max(exp_e, initial=0)), float(missed)) > top:
            fail("sums that do not fit the integer content type were stored in it (wrapped around) instead of being refused or widened", ["frequencies", "errors2", "missed"],
                 dtype=str(res_dtype), biggest_content=float(np.max(exp_f, initial=0)), biggest_error2=float(np.max(exp_e, initial=0)), missed=float(missed))
            return False
    if exact:
        with np.errstate(over="ignore", invalid="ignore"):
            f_ok = np.array_equal(freq.astype(float), exp_f.astype(res_dtype).astype(float))
            e_ok = np.array_equal(err2.astype(float), exp_e.astype(res_dtype).astype(float))
            m_ok = float(h.missed) == float(np.asarray(float(missed)).astype(res_dtype))
    else:
        n = max(1, len(rows))
        aw = np.abs(np.asarray(weights, dtype=float)) if weights is not None else np.ones(1)
        eps = float(np.finfo(res_dtype).eps) if res_dtype.kind == "f" else 2.3e-16
        tol_f = 4 * n * eps * float(aw.sum() + 1e-300)
        f_ok = bool(np.all(np.abs(freq.astype(float) - exp_f) <= tol_f))
        e_ok = bool(np.all(np.abs(err2.astype(float) - exp_e) <= 4 * n * eps * float((aw**2).sum() + 1e-300)))
        m_ok = abs(float(h.missed) - float(missed)) <= tol_f
    if not f_ok:
        # distinguish an axis mix-up for the witness
        fail("cell contents differ from the weight of the rows inside each cell", ["frequencies"], got=freq, expected=exp_f,
             transposed_match=bool(d == 2 and exp_f.T.shape == freq.shape and np.array_equal(exp_f.T, freq.astype(float))))
    if not e_ok:
        fail("errors2 differ from the sums of squared weights", ["errors2"], got=err2, expected=exp_e)
    if not m_ok:
        fail("missed differs from the input weight that fell into no cell", ["missed"], got=h.missed, expected=float(missed))
    if exact and f_ok and m_ok and res_dtype.itemsize >= 8:
        if Fraction(float(h.total)) + Fraction(float(h.missed)) != total:
            fail("total + missed != total input weight", ["total"], got=float(h.total) + float(h.missed), expected=float(total))
    rec.notes.setdefault("nd_row_stats", {})
    for k, v in st.items():
        rec.notes["nd_row_stats"][k] = rec.notes["nd_row_stats"].get(k, 0) + v
    return ok


class HNDMonitor(Handler):
    """Passive C02 monitor on the `h` facade (h2 / h3 arrive here as well)."""

    name = "C02.h"

    def before(self, call: Call):
        args, kw = call.args, dict(call.kwargs)
        data = args[0] if args else kw.get("data")
        call.bag["skip"] = None
        rows = None
        try:
            import pandas as pd

            if isinstance(data, pd.DataFrame):
                rows = data.to_numpy(dtype=float)
        except Exception:
            pass
        if rows is None:
            if isinstance(data, (list, tuple, np.ndarray)):
                try:
                    rows = np.asarray(data, dtype=float)
                except Exception:
                    rows = None
        if rows is None or rows.ndim != 2:
            call.bag["skip"] = "container"
            return
        fin = rows[~np.isnan(rows)]
        if fin.size and (not np.all(np.isfinite(fin)) or np.max(np.abs(fin)) > 1e150):
            call.bag["skip"] = "nonfinite"
            return
        if not kw.get("dropna", True) and np.isnan(rows).any():
            call.bag["skip"] = "nan_kept"
            return
        w = kw.get("weights")
        wflat = None
        if w is not None:
            try:
                wflat = np.asarray(w).ravel()
            except Exception:
                call.bag["skip"] = "weights"
                return
            if wflat.dtype.kind not in "iuf" or wflat.shape != (rows.shape[0],) or not np.all(np.isfinite(wflat.astype(float))) or np.any(wflat < 0):
                call.bag["skip"] = "weights_values"
                return
        call.bag.update(rows=rows.copy(), w=None if wflat is None else wflat.copy())

    def after(self, call: Call):
        rec = core.recorder()
        if call.exc is not None:
            return
        if call.bag.get("skip"):
            rec.skip(self.name, call.bag["skip"])
            return
        h = call.result
        if not hasattr(h, "missed") or hasattr(h, "underflow"):
            return
        check_nd(rec, h, call.bag["rows"], call.bag["w"], op="h(passive)")
