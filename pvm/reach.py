"""Reach accounting: which anchored pieces of physt did the workload actually execute?

`sys.monitoring` PY_START events (tool id COVERAGE_ID) with DISABLE after the first hit of every code object,
restricted to code defined under physt's source directory: cost is one callback per function, not per call.
The anchors come from properties.jsonl (`anchors.mechanism[].where`, e.g. "src/physt/binnings.py:508-554;
src/physt/_bin_utils.py:70-116"); a range counts as reached if a function whose body overlaps it
(+- SLACK lines, to absorb the line shifts of the repair commits) was entered.
"""
from __future__ import annotations

import json
import os
import re
import sys
from typing import Dict, List, Set, Tuple

from . import core

SLACK = 45
_entered: Set[Tuple[str, int, str]] = set()
_tool = None


def install(physt_dir: str) -> bool:
    global _tool
    mon = getattr(sys, "monitoring", None)
    if mon is None:
        return False
    tool = mon.COVERAGE_ID
    try:
        mon.use_tool_id(tool, "pvm-reach")
    except ValueError:
        return False
    root = os.path.realpath(physt_dir)

    def on_start(code, offset):
        fn = code.co_filename
        if fn.startswith(root):
            try:
                last = max((l for _, _, l in code.co_lines() if l is not None), default=code.co_firstlineno)
            except Exception:
                last = code.co_firstlineno
            _entered.add((os.path.relpath(fn, os.path.dirname(os.path.dirname(root))), code.co_firstlineno, last))
        return mon.DISABLE

    mon.register_callback(tool, mon.events.PY_START, on_start)
    mon.set_events(tool, mon.events.PY_START)
    _tool = tool
    return True


def uninstall():
    mon = getattr(sys, "monitoring", None)
    if mon is None or _tool is None:
        return
    try:
        mon.set_events(_tool, 0)
        mon.register_callback(_tool, mon.events.PY_START, None)
        mon.free_tool_id(_tool)
    except Exception:
        pass


def anchors_of(prop: str) -> List[Tuple[str, str, int, int]]:
    """[(mechanism name, file, first line, last line)]"""
    out = []
    try:
        for line in open(core.ROOT / "properties.jsonl"):
            p = json.loads(line)
            if p["id"] != prop:
                continue
            for m in p["anchors"].get("mechanism", []):
                cur_file = None
                for part in re.split(r"[;]", m.get("where", "")):
                    part = part.strip()
                    if not part:
                        continue
                    if ":" in part:
                        cur_file, ranges = part.split(":", 1)
                    else:
                        ranges = part
                    for r in ranges.split(","):
                        r = r.strip()
                        mm = re.match(r"^(\d+)(?:-(\d+))?$", r)
                        if mm and cur_file:
                            lo = int(mm.group(1))
                            hi = int(mm.group(2) or lo)
                            out.append((m.get("name", "")[:70], cur_file.strip(), lo, hi))
    except Exception:
        pass
    return out


def dump(prop: str, shard) -> None:
    """PVM_REACH_DUMP=<dir>: write the entered functions of this shard (tools/unreached.py lists what no check enters)."""
    d = os.environ.get("PVM_REACH_DUMP")
    if not d:
        return
    try:
        os.makedirs(d, exist_ok=True)
        with open(os.path.join(d, f"{prop}_{shard}_{os.getpid()}.json"), "w") as f:
            json.dump(sorted([list(x) for x in _entered]), f)
    except OSError:
        pass


def report(prop: str) -> Dict[str, object]:
    dump(prop, "s")
    anchors = anchors_of(prop)
    by_file: Dict[str, List[Tuple[int, int]]] = {}
    for f, first, last in _entered:
        by_file.setdefault(f.replace(os.sep, "/"), []).append((first, last))
    reached = {}
    for name, f, lo, hi in anchors:
        key = f"{f}:{lo}-{hi}"
        spans = by_file.get(f, [])
        hits = [sp for sp in spans if sp[0] <= hi + SLACK and sp[1] >= lo - SLACK]  # the function's body overlaps the anchored range
        reached[key] = len(hits)
    return {"functions_entered_in_physt": len(_entered), "anchor_ranges": len(anchors), "anchor_ranges_reached": sum(1 for v in reached.values() if v),
            "functions_entered_per_anchor_range": reached}
