"""Instrumentation layer: attaches monitors to the real physt functions from outside.

No source edit of physt is needed: every target is a Python function, method, property or
classmethod.  `wrap()` replaces it by a wrapper that

  * hands a Call event to every registered handler *before* invoking the original
    (handler.before) and *after* it returned or raised (handler.after),
  * never changes the outcome (handlers record; exceptions raised inside a handler are caught
    and counted as monitor errors = inconclusive events, never violations),
  * is transparent while a handler itself is running (handlers may call physt).

Early-bound references (``from physt._construction import calculate_1d_frequencies``, the
``binning_methods`` registry, re-exports in ``physt/__init__``, accessor modules) are rebound:
every module global of every loaded ``physt*`` module and every value of the known registries
that *is* the original object is replaced by the wrapper.
"""
from __future__ import annotations

import functools
import sys
import threading
from typing import Any, Callable, Dict, List, Optional, Tuple

from . import core

_tls = threading.local()


def _state():
    st = _tls.__dict__
    if "depth" not in st:
        st["depth"] = 0
        st["in_monitor"] = 0
    return _tls


class Call:
    __slots__ = ("qualname", "args", "kwargs", "self", "depth", "result", "exc", "bag", "orig")

    def __init__(self, qualname, args, kwargs, self_, depth, orig):
        self.qualname = qualname
        self.args = args
        self.kwargs = kwargs
        self.self = self_
        self.depth = depth
        self.result = None
        self.exc = None
        self.bag: Dict[str, Any] = {}
        self.orig = orig


class Handler:
    """Base class of monitors. name is used for the evaluation counters."""

    name = "handler"

    def before(self, call: Call) -> None:  # pragma: no cover - interface
        pass

    def after(self, call: Call) -> None:  # pragma: no cover - interface
        pass


class quiet:
    """Context manager: physt calls made inside are not monitored (used by monitors/oracles)."""

    def __enter__(self):
        _state().in_monitor += 1

    def __exit__(self, *exc):
        _state().in_monitor -= 1
        return False


def current_depth() -> int:
    return _state().depth


_installed: List[Tuple[Any, str, Any]] = []  # (owner, name, original attribute)
_wrappers: Dict[int, Any] = {}  # id(original callable) -> wrapper
_handlers: Dict[str, List[Handler]] = {}  # qualname -> handlers


def _make_wrapper(orig: Callable, qualname: str, is_method: bool):
    handlers = _handlers.setdefault(qualname, [])

    @functools.wraps(orig)
    def wrapper(*args, **kwargs):
        st = _state()
        if st.in_monitor or not handlers:
            return orig(*args, **kwargs)
        call = Call(qualname, args, kwargs, args[0] if (is_method and args) else None, st.depth, orig)
        rec = core.recorder()
        st.in_monitor += 1
        try:
            for h in handlers:
                try:
                    h.before(call)
                except Exception as e:  # monitor bug -> inconclusive event
                    rec.monitor_error(h.name + ".before", e)
        finally:
            st.in_monitor -= 1
        st.depth += 1
        try:
            call.result = orig(*args, **kwargs)
        except BaseException as e:
            call.exc = e
            raise
        finally:
            st.depth -= 1
            st.in_monitor += 1
            try:
                for h in handlers:
                    try:
                        h.after(call)
                    except Exception as e:
                        rec.monitor_error(h.name + ".after", e)
            finally:
                st.in_monitor -= 1
        return call.result

    wrapper.__pvm_wrapped__ = orig  # type: ignore[attr-defined]
    return wrapper


def _rebind_everywhere(orig: Any, new: Any) -> int:
    n = 0
    for modname, mod in list(sys.modules.items()):
        if mod is None or not (modname == "physt" or modname.startswith("physt.")):
            continue
        d = getattr(mod, "__dict__", None)
        if not d:
            continue
        for k, v in list(d.items()):
            if v is orig:
                d[k] = new
                n += 1
    try:
        from physt import binnings

        for k, v in list(binnings.binning_methods.items()):
            if v is orig:
                binnings.binning_methods[k] = new
                n += 1
    except Exception:
        pass
    return n


def wrap(owner: Any, name: str, handler: Handler, qualname: Optional[str] = None) -> bool:
    """Attach handler to owner.name (function in a module, method/property/classmethod of a class).

    Returns False (and attaches nothing) if the target does not exist in the tree under test.
    """
    import inspect

    qualname = qualname or f"{getattr(owner, '__name__', owner)}.{name}"
    is_class = inspect.isclass(owner)
    if is_class:
        raw = owner.__dict__.get(name)
        if raw is None:
            return False
    else:
        raw = getattr(owner, name, None)
        if raw is None:
            return False

    # already wrapped -> just add the handler
    probe = raw
    if isinstance(raw, property):
        probe = raw.fget
    elif isinstance(raw, (classmethod, staticmethod)):
        probe = raw.__func__
    if getattr(probe, "__pvm_wrapped__", None) is not None:
        hs = _handlers.setdefault(qualname, [])
        if handler not in hs:
            hs.append(handler)
        return True

    _handlers.setdefault(qualname, []).append(handler)
    if isinstance(raw, property):
        w = _make_wrapper(raw.fget, qualname, True)
        new = property(w, raw.fset, raw.fdel, raw.__doc__)
    elif isinstance(raw, classmethod):
        w = _make_wrapper(raw.__func__, qualname, True)
        new = classmethod(w)
    elif isinstance(raw, staticmethod):
        w = _make_wrapper(raw.__func__, qualname, False)
        new = staticmethod(w)
    else:
        new = _make_wrapper(raw, qualname, is_class)
    setattr(owner, name, new)
    _installed.append((owner, name, raw))
    if not is_class and callable(raw):
        _rebind_everywhere(raw, new)
        _wrappers[id(raw)] = new
    return True


def wrap_dispatch(func_owner: Any, name: str, handler: Handler) -> bool:
    """functools.singledispatch functions: wrapping the dispatcher (module attribute) suffices,
    every implementation is reached through it."""
    return wrap(func_owner, name, handler)


def detach_all():
    while _installed:
        owner, name, raw = _installed.pop()
        try:
            cur = owner.__dict__.get(name) if isinstance(owner, type) else getattr(owner, name, None)
            setattr(owner, name, raw)
            if not isinstance(owner, type) and callable(raw) and cur is not None:
                _rebind_everywhere(cur, raw)
        except Exception:
            pass
    _handlers.clear()
    _wrappers.clear()
