#!/usr/bin/env python3
"""tools/add_fixed.py <Dnn> <property> <commit> <mechanism> "<what failed>"  - append a fixed entry to known_findings.json"""
import json, sys
did, prop, commit, mech, what = sys.argv[1:6]
p = "/verif/known_findings.json"
d = json.load(open(p))
assert not any(f["id"] == did for f in d["findings"]), "id exists"
d["findings"].append({"id": did, "status": "fixed", "property": prop, "commit": commit, "mechanism": mech, "what": what,
                      "line": f"fixed: property={prop} {commit} {what}"})
json.dump(d, open(p, "w"), indent=1, ensure_ascii=False)
print("added", did)
