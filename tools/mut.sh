#!/bin/bash
# usage: tools/mut.sh <patch-file | -R commit> <prop> [tier]   : apply patch to /repo, run check, always restore /repo
set -u
cd /repo || exit 2
if [ -n "$(git status --porcelain)" ]; then echo "repo dirty"; exit 2; fi
if [ "$1" = "-R" ]; then shift; git show "$1" | git apply -R || exit 2; else git apply "$1" || exit 2; fi
shift
prop=$1; tier=${2:-quick}
cd /verif && ./check "$prop" --tier "$tier" | grep -E "^\[|VIOLATION|INCONCLUSIVE|  - " | head -12
rc=${PIPESTATUS[0]}
git -C /repo checkout -- . 
echo "rc=$rc"
