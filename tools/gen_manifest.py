#!/usr/bin/env python3
"""Regenerates MANIFEST.json from the table below (kept valid against /root/.vp/MANIFEST.schema.json)."""
import json
import os
import sys
from pathlib import Path

ROOT = Path(__file__).resolve().parent.parent
sys.path.insert(0, str(ROOT))

BASELINE_OFF = ("cd /repo && env -u PHYST_VERIF /venv/bin/python -m pytest -ra -q -p no:cacheprovider --timeout=900 "
                "--continue-on-collection-errors")

# property -> (technique, level text, level note, design ref)
CHECKS = {}


def claim(pid, technique, text, note, ref):
    CHECKS[pid] = dict(technique=technique, text=text, note=note, ref=ref)


TRUST = ("Trusted base: CPython, numpy and the monitors' own reference models (pvm/model.py, pure Python, exact rational sums). "
         "Reach = the executions produced by the seeded workloads (evidence lists counts, input classes, samples); "
         "nothing is claimed about inputs or histories that were not driven.")

from pvm.claims import CLAIMS  # noqa: E402

for pid, c in CLAIMS.items():
    claim(pid, c["technique"], c["text"], c.get("note", TRUST), c.get("ref", f"DESIGN.md section 4 ({pid})"))

props = [json.loads(l)["id"] for l in open(ROOT / "properties.jsonl")]
manifest = {
    "version": 1,
    "setup_cmd": "cd /verif && /venv/bin/python -m pvm.selftest",
    "hooks": {
        "guard": "PHYST_VERIF",
        "enable": ("no source hooks: monitors are attached from /verif by wrapping physt's functions at run time "
                   "(pvm/attach.py); PHYST_VERIF=1 is set by the checks for their child processes and only lets "
                   "pvm.pytest_plugin attach the passive monitors when the repository's tests are run under them"),
        "baseline_off_cmd": BASELINE_OFF,
        "source_commits": [],
        "add_only": True,
    },
    "engines": [
        {"name": "pvm", "path": "pvm/", "serves_properties": sorted(CHECKS),
         "kind_free_text": "runtime monitors (post-condition, history, world, schedule-stress) attached to the real physt code + seeded hostile workloads"},
    ],
    "checks": [],
    "notes": ("Runtime monitoring only. ./check <id> --tier quick|thorough [--seed N]; VERIF_SEED / VERIF_TIER are honoured. "
              "Exit 0 held / 1 VIOLATION / 2 INCONCLUSIVE (deciding monitor not reached, too few non-trivial cases, watchdog). "
              "known_findings.json lists genuine defects (known / fixed) by mechanism."),
    "not_applicable": [],
}
for pid in props:
    if pid in CHECKS:
        c = CHECKS[pid]
        manifest["checks"].append({
            "property_id": pid,
            "quick_cmd": f"./check {pid} --tier quick",
            "thorough_cmd": f"./check {pid} --tier thorough",
            "evidence_file": f"/verif/evidence/{pid}.json",
            "replay_cmd_template": f"./check {pid} --replay {{path}}",
            "engine": "pvm",
            "level_claimed": {"category": "exploration", "text": c["text"], "design_ref": c["ref"]},
            "level_note": c["note"],
            "technique": c["technique"],
        })
    else:
        manifest["not_applicable"].append({"property_id": pid, "reason": "check not built yet in this session (runtime monitoring applies; see DESIGN.md section 4) - not claimed until its monitor has been validated"})

out = ROOT / "MANIFEST.json"
out.write_text(json.dumps(manifest, indent=1) + "\n")
try:
    import jsonschema

    jsonschema.validate(manifest, json.load(open("/root/.vp/MANIFEST.schema.json")))
    print("MANIFEST.json valid;", len(manifest["checks"]), "checks,", len(manifest["not_applicable"]), "not claimed")
except ImportError:
    print("MANIFEST.json written (jsonschema not available here)")
