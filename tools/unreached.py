#!/usr/bin/env python3
"""Which functions of physt does no check ever enter?

  tools/unreached.py [--tier quick] [Cxx ...]

Runs the checks with PVM_REACH_DUMP set (pvm/reach.py writes, per shard, the code objects entered under
src/physt), then lists every function / method defined in /repo/src/physt (ast) that none of them entered.
The list is a to-do list for workloads, not a verdict.
"""
import ast, json, os, shutil, subprocess, sys, tempfile
from pathlib import Path

ROOT = Path(__file__).resolve().parent.parent
SRC = Path("/repo/src/physt")


def main():
    args = [a for a in sys.argv[1:] if not a.startswith("--")]
    tier = "quick"
    if "--tier" in sys.argv:
        tier = sys.argv[sys.argv.index("--tier") + 1]
        args = [a for a in args if a != tier]
    props = args or [f"C{i:02d}" for i in range(1, 21)]
    d = tempfile.mkdtemp(prefix="pvm_reach_")
    env = dict(os.environ, PVM_REACH_DUMP=d, PVM_EVIDENCE_DIR=os.path.join(d, "evidence"), PVM_REPLAY_DIR=os.path.join(d, "replays"))
    os.makedirs(env["PVM_EVIDENCE_DIR"], exist_ok=True)
    for p in props:
        r = subprocess.run([str(ROOT / "check"), p, "--tier", tier], env=env, capture_output=True, text=True)
        print(p, "rc", r.returncode, file=sys.stderr)
    entered = {}
    for f in Path(d).glob("*.json"):
        prop = f.name.split("_")[0]
        for fn, first, last in json.load(open(f)):
            entered.setdefault((fn.replace(os.sep, "/"), first), set()).add(prop)
    shutil.rmtree(d, ignore_errors=True)
    missing = []
    total = 0
    for path in sorted(SRC.rglob("*.py")):
        rel = "src/physt/" + str(path.relative_to(SRC))
        tree = ast.parse(path.read_text())
        for node in ast.walk(tree):
            if isinstance(node, (ast.FunctionDef, ast.AsyncFunctionDef)):
                total += 1
                first = node.lineno
                lines = {first} | {d_.lineno for d_ in node.decorator_list}
                hit = any((rel, l) in entered for l in lines) or any(k[0].endswith(rel) and k[1] in lines for k in entered)
                if not hit:
                    missing.append(f"{rel}:{first} {node.name}")
    print(f"{total - len(missing)} of {total} functions entered by at least one of {len(props)} checks; not entered:")
    for m in missing:
        print("  ", m)


if __name__ == "__main__":
    main()
