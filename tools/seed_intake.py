#!/usr/bin/env python3
"""Intake of an independently written property-breaking change (from a sub-agent's scratch tree).

  tools/seed_intake.py <prop> <n> <dir with patch.diff demo.py notes.md> ["what it needs to manifest"]

Confirms in a fresh scratch worktree of /repo HEAD: demo passes on the clean tree, patch applies, demo fails
with the patch, the repository's test suite still passes with the patch. Only then the change is stored as
seeded/<prop>-<n>/ with meta.json.  The scratch worktree is removed.
"""
import json, os, shutil, subprocess, sys, time
from pathlib import Path

ROOT = Path(__file__).resolve().parent.parent


def sh(cmd, **kw):
    return subprocess.run(cmd, shell=True, capture_output=True, text=True, **kw)


def main():
    prop, n, src = sys.argv[1], sys.argv[2], Path(sys.argv[3])
    needs = sys.argv[4] if len(sys.argv) > 4 else ""
    wt = Path(f"/tmp/pvm_intake_{prop}_{n}_{os.getpid()}")
    sh(f"git -C /repo worktree add -q --detach {wt} HEAD")
    env = f"PYTHONPATH={wt}/src MPLBACKEND=Agg"
    res = {}
    try:
        r = sh(f"cd {wt} && {env} timeout 600 /venv/bin/python {src}/demo.py")
        res["demo_clean_rc"] = r.returncode
        r = sh(f"git -C {wt} apply {src}/patch.diff")
        res["apply_rc"] = r.returncode
        if r.returncode:
            print("patch does not apply:", r.stderr[-300:]); return 1
        r = sh(f"cd {wt} && {env} timeout 600 /venv/bin/python {src}/demo.py")
        res["demo_patched_rc"] = r.returncode
        res["demo_patched_tail"] = (r.stdout + r.stderr)[-400:]
        r = sh(f"cd {wt} && {env} /venv/bin/python -m pytest -q -p no:cacheprovider --timeout=900 tests 2>&1 | tail -1")
        res["suite_with_patch"] = r.stdout.strip()
        res["files"] = sh(f"git -C {wt} diff --stat | tail -1").stdout.strip()
    finally:
        sh(f"git -C /repo worktree remove --force {wt}")
        shutil.rmtree(wt, ignore_errors=True)
    ok = res["demo_clean_rc"] == 0 and res["demo_patched_rc"] != 0 and " passed" in res["suite_with_patch"] and "failed" not in res["suite_with_patch"]
    print(json.dumps(res, indent=1))
    if not ok:
        print("NOT CONFIRMED"); return 1
    dst = ROOT / "seeded" / f"{prop}-{n}"
    dst.mkdir(parents=True, exist_ok=True)
    for f in ("patch.diff", "demo.py", "notes.md"):
        if (src / f).exists():
            shutil.copy(src / f, dst / f)
    meta = {"property": prop, "source": "independent sub-agent (given only the property text and a scratch worktree)",
            "needs_to_manifest": needs, "base_commit": sh("git -C /repo rev-parse HEAD").stdout.strip(),
            "confirmed": {"demo_on_clean_tree_rc": res["demo_clean_rc"], "demo_with_patch_rc": res["demo_patched_rc"],
                          "test_suite_with_patch": res["suite_with_patch"], "diffstat": res["files"]},
            "caught_by": [], "date": time.strftime("%Y-%m-%d")}
    json.dump(meta, open(dst / "meta.json", "w"), indent=1)
    print("stored", dst)
    return 0


if __name__ == "__main__":
    sys.exit(main())
