#!/usr/bin/env python3
"""Generates the hand-written mutant catalogue under mutants/<name>/ from the "Catches" lists of DESIGN.md.

Each mutant is a one-site textual edit. It is applied in a scratch worktree of /repo HEAD (never in /repo), the
repository's test suite is run with it (only suite-passing mutants are kept: a breakage the existing tests already
expose is not what the monitors are for), and patch.diff + meta.json are written.

    tools/make_mutants.py [-j 8] [name ...]
"""
import json
import os
import shutil
import subprocess
import sys
from concurrent.futures import ThreadPoolExecutor
from pathlib import Path

ROOT = Path(__file__).resolve().parent.parent
S = "src/physt/"

# (name, properties, file, old, new, what)
MUTANTS = [
    ("C01-side-right", ["C01"], S + "_construction.py", 'start = np.searchsorted(data_array, bin[0], side="left")', 'start = np.searchsorted(data_array, bin[0], side="right")',
     "a value exactly on a left edge falls into the previous bin"),
    ("C01-last-open", ["C01"], S + "_construction.py", '''            stop = np.searchsorted(
                data_array, bin[1], side="right"
            )  # TODO: Understand and explain''', '''            stop = np.searchsorted(data_array, bin[1], side="left")''', "the last bin no longer contains its right edge"),
    ("C01-errors-linear", ["C01"], S + "_construction.py", "errors2[xbin] = (weights_array[start:stop] ** 2).sum()", "errors2[xbin] = weights_array[start:stop].sum()", "errors2 = sum of weights"),
    ("C01-weights-unsorted", ["C01"], S + "_construction.py", "        weights_array = weights_array[sort_order]\n", "", "weights no longer follow their values when the data are sorted"),
    ("C01-overflow-start", ["C01"], S + "_construction.py", "            overflow = weights_array[stop:].sum()", "            overflow = weights_array[start:].sum() - weights_array[start:stop].sum() if False else weights_array[stop + 1:].sum()", "overflow skips its first value"),
    ("C02-errors-unsquared", ["C02"], S + "_construction.py", "err_freq, _ = np.histogramdd(data, edges, weights=weights**2)", "err_freq, _ = np.histogramdd(data, edges, weights=weights)", "ND errors2 from unsquared weights"),
    ("C02-missed-counts", ["C02"], S + "_construction.py", "        missing = weights.sum() - frequencies.sum()", "        missing = data.shape[0] - frequencies.sum()", "ND missed computed from the row count instead of the weights"),
    ("C02-kwargs-fanout", ["C02"], S + "_construction.py", "**{k: kwarg[i] for k, kwarg in kwargs.items() if kwarg[i] is not None},", "**{k: kwarg[-1 - i] for k, kwarg in kwargs.items() if kwarg[-1 - i] is not None},", "per-axis keyword lists reach the axes in reverse order"),
    ("C03-findbin-left", ["C03"], S + "histogram1d.py", 'ixbin = np.searchsorted(self.bin_left_edges, value, side="right").item()', 'ixbin = np.searchsorted(self.bin_left_edges, value, side="left").item()', "1D find_bin / fill put a value on a left edge into the previous bin"),
    ("C03-filln-errors", ["C03"], S + "histogram1d.py", "        self._errors2 += errors2\n        # TODO: check that adaptive", "        self._errors2 += frequencies\n        # TODO: check that adaptive", "1D fill_n adds the contents to errors2"),
    ("C03-nd-missed-count", ["C03"], S + "histogram_nd.py", "                self._missed += weight\n", "                self._missed += 1\n", "ND fill counts missed entries instead of their weight"),
    ("C03-fill-return", ["C03"], S + "histogram1d.py", "            self._frequencies[ixbin] += weight\n            self._errors2[ixbin] += weight**2\n            try:", "            self._frequencies[ixbin] += weight\n            self._errors2[ixbin] += weight\n            try:", "1D fill adds weight (not weight**2) to errors2"),
    ("C04-binmap-shift", ["C04", "C05"], S + "binnings.py", "            bin_map = ((i, i + add_left) for i in range(self._bin_count))", "            bin_map = ((i, i + add_left + (1 if add_right and add_left else 0)) for i in range(self._bin_count))", "adaptive union: contents shifted by one bin when growing on both sides"),
    ("C04-reshape-drop", ["C04"], S + "histogram_base.py", "                new_errors2[tuple(new_index)] += old_errors2\n            else:", "                new_errors2[tuple(new_index)] += old_frequencies\n            else:", "adaptive growth copies the contents into errors2"),
    ("C05-missed-not-added", ["C05"], S + "histogram_base.py", "                self._missed += other._missed\n            elif self.is_adaptive():", "                pass\n            elif self.is_adaptive():", "addition over equal bins forgets underflow / overflow / missed"),
    ("C05-errors-from-frequencies", ["C05"], S + "histogram_base.py", "                self.errors2 = self.errors2 + other.errors2\n                self._missed += other._missed", "                self.errors2 = self.errors2 + other.frequencies\n                self._missed += other._missed", "addition adds the other operand's contents to errors2"),
    ("C06-errors-linear", ["C06"], S + "histogram_base.py", "            self.errors2 = self.errors2 * scalar**2\n", "            self.errors2 = self.errors2 * abs(scalar)\n", "multiplication scales errors2 linearly"),
    ("C06-missed-not-divided", ["C06"], S + "histogram_base.py", "            self.errors2 = self.errors2 / other**2\n            self._missed /= other\n", "            self.errors2 = self.errors2 / other**2\n", "division leaves the missed values unscaled"),
    ("C06-percent-inplace", ["C06"], S + "histogram_base.py", "            self /= self.total * (0.01 if percent else 1)", "            self /= self.total * (100 if percent else 1)", "normalize(inplace=True, percent=True) divides by 100 twice"),
    ("C07-quantile-percent", ["C07"], S + "binnings.py", "        percentiles = np.asarray(q) * 100.0", "        percentiles = np.asarray(q)", "quantile list used as percentiles"),
    ("C07-copy-shift", ["C07", "C12"], S + "binnings.py", "            bin_shift=self._shift,\n            includes_right_edge=self.includes_right_edge,\n            adaptive=self._adaptive,", "            includes_right_edge=self.includes_right_edge,\n            adaptive=self._adaptive,", "FixedWidthBinning.copy() loses the shift"),
    ("C07-eq-counts", ["C07"], S + "binnings.py", "        if self._bins is not None:\n            return np.array_equal(self.bins, other.bins)", "        if self._bins is not None:\n            return self.bins.shape == other.bins.shape", "binning == compares only the number of bins"),
    ("C07-pretty-subscales", ["C07"], S + "_bin_utils.py", "    subscales = np.array([0.5, 1, 2, 2.5, 5, 10])", "    subscales = np.array([0.5, 1, 2, 3, 5, 10])", "pretty widths from a wrong family (3 instead of 2.5)"),
    ("C07-mask-shift", ["C07", "C02"], S + "_bin_utils.py", "                if bins[i, 1] != bins[i + 1, 0]:\n                    edges_.append(bins[i + 1, 0])\n                    j += 1\n                j += 1", "                if bins[i, 1] != bins[i + 1, 0]:\n                    edges_.append(bins[i + 1, 0])\n                j += 1", "mask indices of gapped bins not advanced past the gap"),
    ("C08-shift-dropped", ["C08"], S + "binnings.py", '        a_dict["bin_shift"] = self._shift\n', "", "bin_shift is not serialised"),
    ("C08-errors-default", ["C08"], S + "histogram_base.py", '            "errors2": a_dict.get("errors2"),\n', "", "errors2 are not read back (default to the contents)"),
    ("C08-dtype-from-arrays", ["C08"], S + "histogram_base.py", '            "dtype": np.dtype(a_dict["dtype"]),\n', "", "dtype is not read back (inferred from the JSON lists)"),
    ("C09-errors-from-frequencies", ["C09"], S + "histogram_nd.py", "        errors2 = self.errors2.sum(axis=invert)", "        errors2 = self.frequencies.sum(axis=invert)", "projection takes errors2 from the contents"),
    ("C09-T-bins", ["C09"], S + "histogram_nd.py", "        a_copy._binnings = list(reversed(a_copy._binnings))\n", "", "T transposes contents and names but not the bins"),
    ("C10-errors-not-merged", ["C10"], S + "histogram_base.py", "                    new_errors2[tuple(new_index)] += old_errors2[tuple(old_index)]", "                    new_errors2[tuple(new_index)] = old_errors2[tuple(old_index)]", "merge_bins keeps only the last bin's errors2 of every run"),
    ("C10-minfreq-threshold", ["C10"], S + "histogram_base.py", "                    if current_sum > min_frequency:\n                        current_sum = 0\n                        current_new += 1", "                    if current_sum > min_frequency:\n                        current_sum = 0\n                        current_new += 2", "min_frequency merging skips a target index (bins lost / not adjacent)"),
    ("C11-overflow-off-by-one", ["C11"], S + "histogram1d.py", "                    overflow += self.frequencies[index.stop :].sum()", "                    overflow += self.frequencies[index.stop + 1 :].sum()", "contiguous slice forgets the first bin cut off on the right"),
    ("C11-underflow-stop", ["C11"], S + "histogram1d.py", "                    underflow += self.frequencies[0 : index.start].sum()", "                    underflow += self.frequencies[0 : index.start - 1].sum() if index.start > 0 else 0", "contiguous slice forgets one bin cut off on the left"),
    ("C11-names-not-dropped", ["C11", "C09"], S + "histogram_nd.py", "        axis_names = [name for i, name in enumerate(self.axis_names) if i in axes]", "        axis_names = list(self.axis_names)[: len(axes)]", "integer selection / projection keeps the first names instead of the kept axes' names"),
    ("C12-copy-binnings", ["C12"], S + "histogram_base.py", "        a_copy._binnings = [binning.copy() for binning in self._binnings]", "        a_copy._binnings = list(self._binnings)", "copy() shares the binning objects"),
    ("C12-copy-metadata", ["C12"], S + "histogram_base.py", "        a_copy._meta_data = self._meta_data.copy()", "        a_copy._meta_data = self._meta_data", "copy() shares the metadata dictionary"),
    ("C13-nd-fill-coerce", ["C13", "C03"], S + "histogram_nd.py", "        self._coerce_dtype(type(weight))\n        value_array = np.asarray(value)", "        value_array = np.asarray(value)", "ND fill with a float weight truncates into an integer histogram"),
    ("C13-div-no-float", ["C13"], S + "histogram_base.py", "        elif np.isscalar(other):\n            self._coerce_dtype(np.float64)\n            self.frequencies = self.frequencies / other", "        elif np.isscalar(other):\n            self.frequencies = self.frequencies / other", "division does not promote the reported dtype to float"),
    ("C14-sum2-squared-weight", ["C14"], S + "histogram1d.py", "                    sum2=self.statistics.sum2 + weight * value**2,", "                    sum2=self.statistics.sum2 + weight**2 * value**2,", "fill accumulates sum2 with the squared weight"),
    ("C14-minmax-swapped", ["C14"], S + "statistics.py", "            min=min(self.min, other.min),\n            max=max(self.max, other.max),", "            min=min(self.min, other.max),\n            max=max(self.max, other.min),", "statistics of a sum mix up min and max"),
    ("C14-median-kept", ["C14"], S + "histogram1d.py", "                    median=np.nan,\n                )\n            except OverflowError:", "                )\n            except OverflowError:", "median kept after fill"),
    ("C15-atan2-swapped", ["C15"], S + "special_histograms.py", "        result[..., 1] = np.arctan2(value[..., 1], value[..., 0]) % (2 * np.pi)\n        return result", "        result[..., 1] = np.arctan2(value[..., 0], value[..., 1]) % (2 * np.pi)\n        return result", "polar phi = atan2(x, y)"),
    ("C15-no-fold", ["C15"], S + "special_histograms.py", "        return np.arctan2(value[..., 1], value[..., 0]) % (2 * np.pi)", "        return np.arctan2(value[..., 1], value[..., 0])", "azimuthal phi not folded into [0, 2 pi]"),
    ("C15-transformed-ignored", ["C15"], S + "special_histograms.py", "        if not transformed:\n            values = self.transform(values)\n        super().fill_n(", "        values = self.transform(values)\n        super().fill_n(", "fill_n ignores transformed=True"),
    ("C16-radial-linear", ["C16"], S + "special_histograms.py", "        return (self.bin_right_edges**2 - self.bin_left_edges**2) * np.pi", "        return (self.bin_right_edges - self.bin_left_edges) * np.pi", "radial bin size linear in r"),
    ("C16-spherical-third", ["C16"], S + "special_histograms.py", "            self.get_bin_right_edges(0) ** 3 - self.get_bin_left_edges(0) ** 3\n        ) / 3", "            self.get_bin_right_edges(0) ** 3 - self.get_bin_left_edges(0) ** 3\n        )", "spherical volume element without the factor 1/3"),
    ("C16-mesh-xy", ["C16"], S + "histogram_nd.py", '            *[self.get_bin_centers(i) for i in range(self.ndim)], indexing="ij"', '            *[self.get_bin_centers(i) for i in range(self.ndim)], indexing="xy"', "mesh of bin centres in xy indexing"),
    ("C17-accessor-weights", ["C17"], S + "compat/pandas.py", "            weights = self._df[weights]\n", "            weights = self._df[weights].values[::-1]\n", "DataFrame accessor aligns the weight column in reverse"),
    ("C17-xarray-overflow", ["C17"], S + "compat/xarray.py", '        "overflow": h1.overflow,\n', '        "overflow": h1.underflow,\n', "xarray representation stores the underflow as overflow"),
    ("C17-polars-weights-mask", ["C17"], S + "compat/polars.py", "    return extract_weights(array, array_mask=array_mask)  # type: ignore", "    return extract_weights(array, array_mask=None)  # type: ignore", "polars Series weights not masked with the NaN positions"),
    ("C18-isub-missed-first", ["C18"], S + "histogram_base.py", "                self._coerce_dtype(other.dtype)\n                self.frequencies = (", "                self._coerce_dtype(other.dtype)\n                self._missed -= other._missed\n                self.frequencies = (", "in-place subtraction changes the missed values before the (possibly refused) contents are assigned"),
    ("C18-setdtype-before-check", ["C18", "C13"], S + "histogram_base.py", "        value, type_info = self._eval_dtype(value)\n        if value == self._dtype:\n            return\n", "        value, type_info = self._eval_dtype(value)\n        if value == self._dtype:\n            return\n        old_dtype, self._dtype = self._dtype, value\n        self._dtype = old_dtype if np.can_cast(old_dtype, value) else value\n", "set_dtype records the new dtype before the admissibility check"),
    # --- round-2 sub-agent changes whose scratch trees were removed before intake; re-created from the agents' descriptions ---
    ("R2-C03-mask-tolerance", ["C03", "C02"], S + "_bin_utils.py", "                if bins[i, 1] != bins[i + 1, 0]:\n                    edges_.append(bins[i + 1, 0])",
     "                if not is_consecutive(bins[i : i + 2]):\n                    edges_.append(bins[i + 1, 0])",
     "ND batch path: a real gap narrower than the allclose tolerance is merged into the following bin (fill / find_bin still miss it)"),
    ("R2-C07-is-rising-uint", ["C07"], S + "_bin_utils.py", "    if np.any(bins[:, 0] >= bins[:, 1]):\n        return False\n    if np.any(bins[1:, 0] < bins[:-1, 1]):\n        return False\n    return True",
     "    widths = bins[:, 1] - bins[:, 0]\n    gaps = bins[1:, 0] - bins[:-1, 1]\n    return bool(np.all(widths > 0) and np.all(gaps >= 0))",
     "is_rising by subtraction: unsigned integer edge arrays wrap around, so descending / overlapping uint edges are accepted"),
    ("R2-C07-copy-align", ["C07", "C12"], S + "binnings.py", "            align=self._align,  # Not necessary\n", "",
     "FixedWidthBinning.copy() loses align=False: an empty copy filled later gets other bins than its source"),
    ("C20-bar-centres", ["C20"], S + "plotting/matplotlib.py", "    ax.bar(\n        h1.bin_left_edges,\n        data,", "    ax.bar(\n        h1.bin_centers,\n        data,", "bars drawn from the bin centres"),
    ("C20-errors-not-divided", ["C20"], S + "plotting/common.py", "        data = histogram.errors / histogram.bin_sizes", "        data = histogram.errors", "density error bars not divided by the bin size"),
    ("C20-image-not-flipped", ["C20"], S + "plotting/matplotlib.py", "        data.T[::-1, :],", "        data.T,", "image rows not flipped (cells upside down)"),
    ("C20-cumulative-density", ["C20"], S + "plotting/common.py", "            data = (histogram / histogram.total).cumulative_frequencies", "            data = histogram.densities.cumsum()", "cumulative + density shows the running sum of densities"),
]


def sh(cmd, **kw):
    return subprocess.run(cmd, shell=True, capture_output=True, text=True, **kw)


def build(m):
    name, props, path, old, new, what = m
    wt = Path(f"/tmp/pvm_mk_{name}_{os.getpid()}")
    sh(f"git -C /repo worktree remove --force {wt}")
    sh(f"git -C /repo worktree add -q --detach {wt} HEAD")
    try:
        f = wt / path
        s = f.read_text()
        if s.count(old) != 1:
            return name, f"SKIP (pattern matches {s.count(old)} times)"
        f.write_text(s.replace(old, new))
        r = sh(f"cd {wt} && PYTHONPATH={wt}/src MPLBACKEND=Agg /venv/bin/python -m pytest -q -x -p no:cacheprovider --timeout=900 tests 2>&1 | tail -1")
        suite = r.stdout.strip()
        shutil.rmtree(wt / ".hypothesis", ignore_errors=True)
        diff = sh(f"git -C {wt} diff").stdout
        passes = " passed" in suite and "failed" not in suite and "error" not in suite.lower()
        d = ROOT / "mutants" / name
        if not passes:
            shutil.rmtree(d, ignore_errors=True)
            return name, f"DROPPED (suite: {suite})"
        d.mkdir(parents=True, exist_ok=True)
        (d / "patch.diff").write_text(diff)
        json.dump({"property": props[0], "properties": props, "source": "hand-written from DESIGN.md 'Catches'", "what": what, "test_suite_with_patch": suite,
                   "base_commit": sh("git -C /repo rev-parse HEAD").stdout.strip()}, open(d / "meta.json", "w"), indent=1)
        return name, f"kept ({suite})"
    finally:
        sh(f"git -C /repo worktree remove --force {wt}")
        shutil.rmtree(wt, ignore_errors=True)


def main():
    args = [a for a in sys.argv[1:] if not a.startswith("-")]
    j = 8
    if "-j" in sys.argv:
        j = int(sys.argv[sys.argv.index("-j") + 1])
        args = [a for a in args if a != str(j)]
    todo = [m for m in MUTANTS if not args or m[0] in args]
    with ThreadPoolExecutor(max_workers=j) as ex:
        for name, res in ex.map(build, todo):
            print(f"{name:32s} {res}")


if __name__ == "__main__":
    main()
