#!/bin/bash
# tools/sweep.sh <tier> <seeds...> : runs every check for the given seeds, prints one line per run and all non-held outcomes
tier=$1; shift
for s in "$@"; do
  for p in C01 C02 C03 C04 C05 C06 C07 C08 C09 C10 C11 C12 C13 C14 C15 C16 C17 C18 C19 C20; do
    out=$(VERIF_SEED=$s ./check $p --tier $tier 2>&1); rc=$?
    echo "seed=$s $p rc=$rc $(echo "$out" | grep '^\[' | cut -c1-160)"
    if [ $rc -ne 0 ]; then echo "$out" | grep -E "VIOLATION|INCONCLUSIVE|  - " | head -8; fi
  done
done
