#!/usr/bin/env python3
"""Sensitivity harness: runs checks against property-breaking variants of physt WITHOUT touching /repo.

Each mutant is applied to a scratch git worktree of /repo's HEAD under /tmp, the check is run with
PYTHONPATH=<scratch>/src (evidence records physt_path) and PVM_EVIDENCE_DIR pointing into the scratch
tree, and the worktree is removed afterwards.

  tools/mutants.py revert:<commit>=C03,C12  seeded/C01-1=C01  path/to.diff=C05 ...   [--tier quick] [-j 4]
  tools/mutants.py --all            # every directory under seeded/ and mutants/ (meta.json names the properties)
"""
import argparse, json, os, shutil, subprocess, sys, time
from concurrent.futures import ThreadPoolExecutor
from pathlib import Path

ROOT = Path(__file__).resolve().parent.parent
SCRATCH = Path("/tmp/pvm_mut")


def sh(cmd, **kw):
    return subprocess.run(cmd, shell=isinstance(cmd, str), capture_output=True, text=True, **kw)


def run_mutant(spec, props, tier, seed):
    name = spec.replace("/", "_").replace(":", "_")
    wt = SCRATCH / f"{name}_{os.getpid()}"
    SCRATCH.mkdir(exist_ok=True)
    sh(f"git -C /repo worktree remove --force {wt}")
    r = sh(f"git -C /repo worktree add -q --detach {wt} HEAD")
    if r.returncode:
        return spec, {p: ("setup-failed", r.stderr[-200:]) for p in props}
    out = {}
    try:
        if spec.startswith("revert:"):
            c = spec.split(":", 1)[1]
            r = sh(f"git -C /repo show {c} | git -C {wt} apply -R")
            if r.returncode:
                r = sh(f"git -C /repo show {c} | git -C {wt} apply -R -C1 --recount")
        else:
            patch = Path(spec)
            if patch.is_dir():
                patch = patch / "patch.diff"
            if not patch.is_absolute():
                patch = ROOT / patch
            r = sh(f"git -C {wt} apply {patch}")
            if r.returncode:  # the context drifted through later repairs of /repo: less context, then fuzz
                r = sh(f"git -C {wt} apply -C1 --recount {patch}")
            if r.returncode:
                r = sh(f"cd {wt} && patch -p1 -F3 -s < {patch}")
        if r.returncode:
            return spec, {p: ("apply-failed", r.stderr[-300:]) for p in props}
        env = dict(os.environ)
        env["PYTHONPATH"] = f"{wt}/src"
        env["PVM_EVIDENCE_DIR"] = str(wt / "pvm_evidence")
        env["PVM_REPLAY_DIR"] = str(wt / "pvm_replays")
        env["PVM_REPO"] = str(wt)
        env["VERIF_SEED"] = str(seed)
        for p in props:
            t0 = time.time()
            r = sh([str(ROOT / "check"), p, "--tier", tier], env=env, cwd=str(ROOT))
            lines = [l for l in r.stdout.splitlines() if l.startswith("  - ") or l.startswith("INCONCLUSIVE")][:3]
            ev = {}
            try:
                ev = json.load(open(wt / "pvm_evidence" / f"{p}.json"))
            except Exception:
                pass
            pp = ev.get("coverage", {}).get("notes", {}).get("physt_path", "?")
            out[p] = (r.returncode, round(time.time() - t0, 1), pp, lines)
    finally:
        sh(f"git -C /repo worktree remove --force {wt}")
        shutil.rmtree(wt, ignore_errors=True)
    return spec, out


def main():
    ap = argparse.ArgumentParser()
    ap.add_argument("specs", nargs="*")
    ap.add_argument("--tier", default="quick")
    ap.add_argument("--seed", type=int, default=0)
    ap.add_argument("-j", type=int, default=4)
    ap.add_argument("--all", action="store_true")
    ap.add_argument("-v", action="store_true")
    a = ap.parse_args()
    jobs = []
    for s in a.specs:
        spec, _, props = s.partition("=")
        jobs.append((spec, props.split(",")))
    if a.all:
        for base in ("seeded", "mutants"):
            for d in sorted((ROOT / base).glob("*")):
                meta = d / "meta.json"
                if meta.exists():
                    m = json.load(open(meta))
                    if m.get("neutralised_by"):
                        print(f"SKIPPED  {d.relative_to(ROOT)}: no longer breaks the property ({m['neutralised_by'][:60]}...)")
                        continue
                    jobs.append((str(d.relative_to(ROOT)), m.get("caught_by") or m.get("properties") or [m.get("property")]))
    detected = missed = 0
    rows = []
    with ThreadPoolExecutor(max_workers=a.j) as ex:
        for spec, out in ex.map(lambda j: run_mutant(j[0], j[1], a.tier, a.seed), jobs):
            caught_by = []
            for p, res in out.items():
                rc = res[0]
                ok = rc == 1
                detected += ok
                missed += (not ok)
                if ok:
                    caught_by.append(p)
                first = (res[3][0].strip()[2:] if len(res) > 3 and res[3] else "")
                rows.append((spec, p, "caught" if ok else f"MISSED (rc={rc})", first[:150]))
                print(f"{'CAUGHT ' if ok else 'MISSED '} {spec} {p} rc={rc} {res[1:3] if len(res) > 2 else res[1:]}")
                if (a.v or not ok) and len(res) > 3:
                    for l in res[3]:
                        print("      ", l[:220])
            if a.all and (ROOT / spec / "meta.json").exists():
                m = json.load(open(ROOT / spec / "meta.json"))
                m["caught_by"] = caught_by
                m["checked"] = {"tier": a.tier, "seed": a.seed, "date": time.strftime("%Y-%m-%d")}
                json.dump(m, open(ROOT / spec / "meta.json", "w"), indent=1)
    if a.all:
        lines = ["# Sensitivity results (tools/mutants.py --all, tier %s, seed %d)" % (a.tier, a.seed), "",
                 "Every stored property-breaking change, applied to a scratch worktree of /repo HEAD, against the quick check of the property it breaks.", "",
                 "| change | check | outcome | first record |", "|---|---|---|---|"]
        for spec, p, outc, first in sorted(rows):
            lines.append(f"| {spec} | {p} | {outc} | {first.replace('|', '/')} |")
        lines.append("")
        lines.append(f"caught {detected} / {detected + missed}")
        (ROOT / "seeded" / "RESULTS.md").write_text("\n".join(lines) + "\n")
    print(f"caught {detected} / {detected + missed}")
    return 0 if missed == 0 else 1


if __name__ == "__main__":
    sys.exit(main())
